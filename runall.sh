#!/bin/bash
# Run every quick check once (VERIF_SEED honoured) and summarise exit codes.
cd "$(dirname "$0")"
rc=0
for i in 01 02 03 04 05 06 07 08 09 10 11 12 13 14 15 16 17 18; do
  out=$(./check C$i --tier "${VERIF_TIER:-quick}" 2>&1); r=$?
  echo "$out" | grep -v conda | grep -v "^KNOWN-FINDING" | tail -${TAILN:-3} | cut -c1-220
  [ $r -ne 0 ] && rc=1
done
exit $rc
