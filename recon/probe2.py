import json, warnings, collections, inspect, traceback, sys, importlib
warnings.simplefilter('ignore')
from stdnum.exceptions import ValidationError
corpus = json.load(open('/tmp/explore/corpus.json'))
def outcome(f, *a, **k):
    try:
        return ('ok', f(*a, **k))
    except ValidationError as e:
        return ('verr', type(e).__name__)
    except Exception as e:
        return ('EXC', type(e).__name__, str(e)[:60])
res = collections.defaultdict(list)
for name, nums in corpus.items():
    m = importlib.import_module(name)
    for x in nums:
        o = outcome(m.validate, x)
        if o[0] != 'ok': continue
        v = o[1]
        # C02
        o2 = outcome(m.validate, v)
        if o2 != ('ok', v): res['C02', name].append((x, v, o2))
        if isinstance(v, str) and v != v.strip(): res['C02ws', name].append((x, v))
        # C04
        if hasattr(m, 'format'):
            f = outcome(m.format, x)
            if f[0] != 'ok': res['C04fmt-exc', name].append((x, f))
            else:
                vf = outcome(m.validate, f[1])
                if vf != ('ok', v): res['C04', name].append((x, v, f[1], vf))
                f2 = outcome(m.format, v)
                if f2 != f: res['C04b', name].append((x, v, f, f2))
        # C12
        for fn in dir(m):
            if fn.startswith('get_') or fn in ('info', 'split'):
                g = getattr(m, fn)
                if not inspect.isfunction(g): continue
                r = outcome(g, v)
                if r[0] == 'EXC': res['C12', name, fn].append((v, r))
        # C15
        if isinstance(v, str) and not v.isascii(): res['C15', name].append((x, v))
for k, v in sorted(res.items()):
    print(k, len(v), v[:2])
