import json, warnings, collections, inspect, importlib, random
warnings.simplefilter('ignore')
from stdnum.exceptions import ValidationError
corpus = json.load(open('/tmp/explore/corpus.json'))
random.seed(3)
def outcome(f, *a, **k):
    try:
        return ('ok', f(*a, **k))
    except ValidationError as e:
        return ('verr',)
    except Exception as e:
        return ('EXC', type(e).__name__, str(e)[:60])
res = collections.defaultdict(list)
DECOR = [' ', '-', '.', '/', ':', ',', '–', ' ', '\t', '\n', '*', "'"]
FOREIGN = {str(d): [chr(0x0660+d), chr(0x0966+d), chr(0xFF10+d), chr(0x1D7CE+d)] for d in range(10)}
for name, nums in corpus.items():
    m = importlib.import_module(name)
    if name.startswith('stdnum.iso7064') or name in ('stdnum.luhn','stdnum.verhoeff','stdnum.damm'): continue
    for x in nums[:30]:
        o = outcome(m.validate, x)
        if o[0] != 'ok': continue
        v = o[1]
        # C03: decorate x at random positions; keep only those with same compact
        if hasattr(m, 'compact'):
            cx = outcome(m.compact, x)
            for _ in range(20):
                i = random.randrange(len(x)+1); d = random.choice(DECOR)
                y = x[:i] + d + x[i:]
                if random.random() < .3: y = y.lower()
                if random.random() < .3: y = ' ' + y + ' '
                cy = outcome(m.compact, y)
                if cy == cx and cx[0]=='ok':
                    oy = outcome(m.validate, y)
                    if oy != o: res['C03', name].append((x, y, o, oy))
        # C15: foreign digits
        for i, ch in enumerate(v):
            if ch in FOREIGN:
                for f in FOREIGN[ch]:
                    y = v[:i] + f + v[i+1:]
                    oy = outcome(m.validate, y)
                    if oy[0] == 'ok' and not oy[1].isascii(): res['C15', name].append((y, oy[1]))
                    if oy[0] == 'EXC': res['C01', name, oy[1]].append((y, oy))
for k, v in sorted(res.items()):
    print(k, len(v), v[:2])
