"""Recon: generated well-formed registries, numdb vs the reference reader."""
import io
import random
import sys
import collections

sys.path.insert(0, '/verif/recon')
from numdbref import parse, lookup  # noqa: E402
from stdnum import numdb  # noqa: E402

random.seed(10)
ALPHA = '012'


def rnd_range(maxlen=3):
    n = random.randint(1, maxlen)
    a = ''.join(random.choice(ALPHA) for _ in range(n))
    if random.random() < .5:
        return a
    b = ''.join(random.choice(ALPHA) for _ in range(n))
    lo, hi = sorted((a, b))
    return lo if lo == hi else '%s-%s' % (lo, hi)


def gen_level(depth, indent, lines):
    step = random.randint(1, 3)
    for _ in range(random.randint(1, 4)):
        ranges = ','.join(rnd_range() for _ in range(random.randint(1, 3)))
        props = ' '.join('%s="%s"' % (random.choice('abc'), random.choice(['x', 'y', '', 'p q']))
                         for _ in range(random.randint(0, 2)))
        if random.random() < .1:
            lines.append('# comment')
        if random.random() < .1:
            lines.append('')
        lines.append(' ' * indent + ranges + (' ' + props if props else ''))
        if depth < 3 and random.random() < .5:
            gen_level(depth + 1, indent + step, lines)


stats = collections.Counter()
bad = []
for trial in range(3000):
    lines = []
    gen_level(0, 0, lines)
    text = '\n'.join(lines) + '\n'
    try:
        db = numdb.read(io.StringIO(text))
    except Exception as e:  # noqa
        bad.append(('read-exc', text, repr(e)))
        continue
    roots, problems = parse(text)
    # duplicate prop keys on one line are legal for the library (last wins in dict()); the strict
    # reader reports them as problems but still parses; ignore here
    for q in [''.join(random.choice(ALPHA) for _ in range(random.randint(0, 8))) for _ in range(30)]:
        stats['queries'] += 1
        r = db.info(q)
        rr = lookup(roots, q)
        if r != rr:
            bad.append(('mismatch', text, q, r, rr))
        if ''.join(p for p, _ in r) != q:
            bad.append(('lossy', text, q, r))
        if len(r) >= 2:
            stats['multi-level'] += 1
        if db.split(q) != [p for p, _ in r]:
            bad.append(('split', text, q))
print(stats, len(bad))
for b in bad[:3]:
    print(b)
