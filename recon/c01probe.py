import warnings, traceback, sys, collections
warnings.simplefilter('ignore')
from stdnum.util import get_number_modules
from stdnum.exceptions import ValidationError
import random
random.seed(1)
mods = list(get_number_modules())
vals = [None, 0, 1.5, b'123', [], ['1','2'], object(), '', ' ', '\n', '1\n', '12345678\n5', '٣'*9, '１２３', 'ß'*8, 'ı'*9,
        '0'*5000, 'A'*3, '\x00', '１'*11, '²'*9, '123456789\n', '\n123456789', '1234\n56789', 'İ'*10]
buckets = collections.defaultdict(list)
for m in mods:
    for v in vals:
        try:
            r = m.validate(v)
            if not isinstance(r, str):
                buckets[('nonstr', m.__name__)].append(repr(v)[:30])
        except ValidationError:
            pass
        except Exception as e:
            tb = traceback.extract_tb(e.__traceback__)
            fr = [f for f in tb if '/stdnum/' in f.filename][-1]
            buckets[(type(e).__name__, fr.filename.split('/stdnum/')[1], fr.lineno)].append((m.__name__, repr(v)[:30]))
        try:
            r = m.is_valid(v)
            if r is not True and r is not False:
                buckets[('isvalid-nonbool', m.__name__)].append(repr(v)[:30])
        except Exception as e:
            buckets[('isvalid-raise', m.__name__, type(e).__name__)].append(repr(v)[:30])
for k, v in sorted(buckets.items(), key=str):
    print(k, len(v), v[:3])
