import random, re, datetime, decimal, collections, warnings, sys
warnings.simplefilter('ignore')
sys.path.insert(0, '/tmp/explore')
from numdbref import parse
from stdnum import gs1_128
from stdnum.exceptions import ValidationError
random.seed(16)
roots, problems = parse(open('/repo/stdnum/gs1_ai.dat', encoding='utf-8').read())
AIS = {}
for e in roots:
    for lo, hi in e.ranges:
        for n in range(int(lo), int(hi) + 1):
            AIS[str(n).zfill(len(lo))] = e.props
CSET82 = '!"%&\'*+,-./0123456789:;<=>?ABCDEFGHIJKLMNOPQRSTUVWXYZ_abcdefghijklmnopqrstuvwxyz'
def ean14():
    body = ''.join(random.choice('0123456789') for _ in range(13))
    s = sum((3,1)[i%2]*int(n) for i,n in enumerate(reversed(body)))
    return body + str((10 - s) % 10)
def gen_str(fmt, sep, parens):
    # returns encoded string piece for type str
    out = ''
    for part in fmt.split('+'):
        opt = part.endswith(']')
        part = part.replace('[','').replace(']','')
        m = re.match(r'^([NXY])(\.\.)?(\d+)$', part)
        if not m: raise KeyError(fmt)
        kind, var, k = m.group(1), m.group(2), int(m.group(3))
        if opt and random.random() < .4: continue
        n = random.randint(1, k) if var else k
        alpha = '0123456789' if kind == 'N' else CSET82
        alpha = ''.join(c for c in alpha if c not in sep and (not parens or c not in '()'))
        out += ''.join(random.choice(alpha) for _ in range(n))
    return out
def gen(ai, sep, parens):
    p = AIS[ai]; fmt, typ = p['format'], p['type']
    if ai in ('01', '02'):
        v = ean14(); return v, v
    if ai == '8007':
        v = 'NL91ABNA0417164300'; return v, v
    if typ == 'str':
        v = gen_str(fmt, sep, parens); return v, v
    if typ == 'int':
        m = re.match(r'^N(\.\.)?(\d+)$', fmt); k = int(m.group(2))
        n = random.randint(1, k) if m.group(1) else k
        s = ''.join(random.choice('0123456789') for _ in range(n))
        return s, int(s)
    if typ == 'decimal':
        pre = ''
        f = fmt
        if f.startswith('N3+'):
            pre = ''.join(random.choice('0123456789') for _ in range(3)); f = f[3:]
        m = re.match(r'^N(\.\.)?(\d+)$', f); k = int(m.group(2))
        if m.group(1):
            n = random.randint(1, k); dp = random.randint(0, 9)
        else:
            n = k; dp = random.randint(0, k - 1)
        digs = ''.join(random.choice('0123456789') for _ in range(n))
        if dp: 
            val = decimal.Decimal((digs[:-dp] or '') + '.' + digs[-dp:]) if dp <= len(digs) else decimal.Decimal('.' + digs)
        else: val = decimal.Decimal(digs)
        enc = str(dp) + pre + digs
        return enc, ((pre, val) if pre else val)
    if typ == 'date':
        d = datetime.date(random.randint(2000, 2049), random.randint(1,12), random.randint(1,28))
        if fmt == 'N6':
            if random.random() < .3:
                # day 00
                nxt = (d.replace(day=28) + datetime.timedelta(days=4)).replace(day=1) - datetime.timedelta(days=1)
                return d.strftime('%y%m') + '00', nxt
            return d.strftime('%y%m%d'), d
        if fmt in ('N6[+N6]', 'N6..12'):
            if random.random() < .5: return d.strftime('%y%m%d'), d
            d2 = d + datetime.timedelta(days=random.randint(0, 400))
            return d.strftime('%y%m%d') + d2.strftime('%y%m%d'), (d, d2)
        if fmt == 'N10':
            dt = datetime.datetime(d.year, d.month, d.day, random.randint(0,23), random.randint(0,59))
            return dt.strftime('%y%m%d%H%M'), dt
        if fmt in ('N6[+N4]', 'N6+N..4', 'N6[+N..4]'):
            dt = datetime.datetime(d.year, d.month, d.day, random.randint(0,23), random.randint(0,59))
            return dt.strftime('%y%m%d%H%M'), dt
        if fmt in ('N8[+N..4]', 'N8+N..4'):
            dt = datetime.datetime(d.year, d.month, d.day, random.randint(0,23), random.randint(0,59), random.randint(0,59))
            return dt.strftime('%y%m%d%H%M%S'), dt
        raise KeyError(fmt)
    raise KeyError(typ)
def maxlen(fmt, typ):
    n = sum(int(re.match(r'^[NXY](?:\.\.)?(\d+)$', x.replace('[','').replace(']','')).group(1)) for x in fmt.split('+'))
    return n + (1 if typ == 'decimal' else 0)
def build(items, sep, parens):
    # items: list of (ai, enc); fixed first then variable
    fixed = [(a, e) for a, e in items if not AIS[a].get('fnc1')]
    var = [(a, e) for a, e in items if AIS[a].get('fnc1')]
    s = ''
    w = (lambda a: '(%s)' % a) if parens else (lambda a: a)
    for a, e in fixed: s += w(a) + e
    for i, (a, e) in enumerate(var):
        last = i == len(var) - 1
        if not last:
            if sep: e = e + sep
            else:
                typ = AIS[a]['type']; L = maxlen(AIS[a]['format'], typ)
                if typ == 'int': e = e.rjust(L, '0')
                elif typ == 'decimal':
                    pre = 3 if AIS[a]['format'].startswith('N3+') else 0
                    e = e[0] + e[1:1+pre] + e[1+pre:].rjust(L - 1 - pre, '0')
                elif typ == 'date':
                    if len(e) != L: raise KeyError('date-not-last')
                else: e = e.ljust(L)
        s += w(a) + e
    return s
stats = collections.Counter(); bad = collections.defaultdict(list)
skip = set()
for trial in range(30000):
    sep = random.choice(['', '\x1d', '|', '~']); parens = random.random() < .5
    k = random.randint(1, 4)
    ais = random.sample(sorted(AIS), k)
    items = []; mapping = {}
    try:
        for a in ais:
            e, v = gen(a, sep, parens); items.append((a, e)); mapping[a] = v
    except KeyError as ex:
        skip.add(str(ex)); continue
    try:
        s = build(sorted(items), sep, parens)
    except KeyError as ex:
        skip.add(str(ex)); continue
    stats['cases'] += 1
    try:
        i1 = gs1_128.info(s, sep)
    except Exception as ex:
        bad['info-exc', type(ex).__name__].append((s, sep, str(ex)[:40])); continue
    if i1 != mapping: bad['info!=mapping'].append((s, sep, i1, mapping)); continue
    try:
        v = gs1_128.validate(s, sep)
        if gs1_128.info(v, sep) != i1: bad['validated-decodes-differently'].append((s, sep, v))
        if gs1_128.validate(v, sep) != v: bad['not-fixed-point'].append((s, sep, v, gs1_128.validate(v, sep)))
    except Exception as ex:
        bad['validate-exc', type(ex).__name__].append((s, sep, str(ex)[:40])); continue
    try:
        enc = gs1_128.encode(mapping, sep, parens)
        back = gs1_128.info(enc, sep)
        if back != mapping: bad['encode-roundtrip'].append((mapping, sep, parens, enc, back))
    except Exception as ex:
        bad['encode-exc', type(ex).__name__].append((mapping, sep, str(ex)[:40]))
print(stats, 'skipped formats', skip)
for k, v in sorted(bad.items(), key=str): print(k, len(v)); [print('    ', x) for x in v[:3]]
