import json, warnings, collections, importlib, string
warnings.simplefilter('ignore')
corpus = json.load(open('/tmp/explore/corpus.json'))
cands = ['isbn','ean','issn','ismn','imei','isni','iban','lei','iso11649','grid','ca.sin','fr.siren','il.idnr','se.orgnr','in_.aadhaar','in_.vid','hr.oib','de.idnr','de.vat','rs.pib',
 'za.idnr','za.tin','ca.bn','at.uid','it.iva','il.hp','gr.amka','gn.nifp','do.cedula','id.npwp','in_.epic','in_.gstin','es.cif','fr.siret','se.personnummer','no.kontonr','meid','ma.ice','eu.at_02','isan']
for c in cands:
    m = importlib.import_module('stdnum.'+c)
    miss = collections.Counter(); tmiss=collections.Counter(); n=0; ex=[]
    for x in corpus['stdnum.'+c]:
        v = m.validate(x)
        if c=='imei' and len(v)!=15: continue
        n+=1
        for i,ch in enumerate(v):
            alts = string.digits if ch in string.digits else (string.ascii_uppercase if ch in string.ascii_uppercase else '')
            for a in alts:
                if a!=ch:
                    w=v[:i]+a+v[i+1:]
                    try: ok=m.is_valid(w)
                    except Exception as e: ok='EXC'
                    if ok: miss[i if i<len(v)//2 else i-len(v)]+=1; ex.append((v,w))
        for i in range(len(v)-1):
            if v[i]!=v[i+1] and v[i] in string.digits and v[i+1] in string.digits:
                w=v[:i]+v[i+1]+v[i]+v[i+2:]
                if m.is_valid(w): tmiss[i]+=1
    print(c, 'n=',n,'sub-miss',sum(miss.values()), dict(miss) if len(miss)<8 else '...', ex[:2], 'transp-miss', sum(tmiss.values()))
