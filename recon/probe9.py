import json, warnings, collections, importlib, random
warnings.simplefilter('ignore')
from stdnum.exceptions import ValidationError
corpus = json.load(open('/tmp/explore/corpus.json'))
random.seed(9)
def out(f, *a, **k):
    try: return ('ok', f(*a, **k))
    except ValidationError as e: return ('verr',)
    except Exception as e: return ('EXC', type(e).__name__, str(e)[:50])
EU = dict(at='at.uid', be='be.vat', bg='bg.vat', cy='cy.vat', cz='cz.dic', de='de.vat', dk='dk.cvr', ee='ee.kmkr', es='es.nif', fi='fi.alv', fr='fr.tva', gr='gr.vat', el='gr.vat', hr='hr.oib', hu='hu.anum', ie='ie.vat', it='it.iva', lt='lt.pvm', lu='lu.tva', lv='lv.pvn', mt='mt.vat', nl='nl.btw', pl='pl.nip', pt='pt.nif', ro='ro.cf', se='se.vat', si='si.ddv', sk='sk.dph', xi='gb.vat', eu='eu.oss', im='eu.oss')
from stdnum.eu import vat as euvat
from stdnum import vatin, iban
res = collections.defaultdict(list)
def neighbours(v):
    yield v
    for _ in range(6):
        i = random.randrange(len(v)); c = random.choice('0123456789ABXZ \n')
        yield v[:i] + c + v[i+1:]
        yield v[:i] + c + v[i:]
n=0
for cc, mn in EU.items():
    m = importlib.import_module('stdnum.' + mn)
    for x in corpus['stdnum.' + mn][:40]:
        v = m.validate(x)
        for base in neighbours(v):
            for pres in (base, cc.upper() + base, cc + base, cc.upper() + ' ' + base, cc.upper()+cc.upper()+base, ' ' + cc.upper() + base.lower()):
                import re
                from stdnum.util import clean
                norm = clean(pres, '').upper().strip()
                p2 = norm[:2].lower()
                n+=1
                o = out(euvat.validate, pres)
                if p2 in EU:
                    m2 = importlib.import_module('stdnum.' + EU[p2])
                    oc = out(m2.validate, pres)
                    CC = p2.upper()
                    if oc[0]=='ok':
                        r = oc[1]
                        exp = ('ok', r if r.startswith(CC) else CC + r)
                    else: exp = oc
                    if o != exp: res['euvat', cc].append((pres, o, exp))
                else:
                    if o[0] != 'verr': res['euvat-noprefix', cc].append((pres, o))
                ov = out(vatin.validate, pres)
                if o[0]=='ok' and ov != o: res['vatin', cc].append((pres, o, ov))
print(n)
for k,v in sorted(res.items()): print(k, len(v), v[:3])
# unions
from stdnum.us import tin, ssn, itin, ein, ptin, atin
from stdnum.be import ssn as bessn, nn, bis
from stdnum.th import tin as thtin, moa, pin
def union_check(name, wrap, parts, guess=None):
    bad=[]
    pool=set()
    for p in parts: 
        for x in corpus[p.__name__]: pool.add(x); pool.update(neighbours(x))
    for x in pool:
        o = out(wrap.validate, x)
        accs = [p for p in parts if out(p.validate, x)[0]=='ok']
        if (o[0]=='ok') != bool(accs): bad.append((x, o, [p.__name__ for p in accs]))
        if guess:
            g = guess(x)
            names = [p.__name__.rsplit('.',1)[-1] for p in accs]
            if isinstance(g, list):
                if sorted(g)!=sorted(names): bad.append(('guess', x, g, names))
            else:
                if (g is None) != (not names) or (g and g not in names): bad.append(('guess', x, g, names))
    print(name, len(pool), len(bad), bad[:4])
union_check('us.tin', tin, [ssn, itin, ein, ptin, atin], tin.guess_type)
union_check('be.ssn', bessn, [nn, bis], bessn.guess_type)
union_check('th.tin', thtin, [moa, pin], thtin.tin_type)
from stdnum.es import nif, dni, nie, cif
for p in (dni, nie, cif):
    bad=[x for x in corpus[p.__name__] if not nif.is_valid(p.validate(x))]
    print('es.nif ⊇', p.__name__, len(corpus[p.__name__]), bad[:5])
# iban
bad=[]
nat = {'BE':'be.iban','ES':'es.iban','NO':'no.iban','ME':'me.iban'}
pool=set()
for k in ['stdnum.iban','stdnum.be.iban','stdnum.es.iban','stdnum.no.iban','stdnum.me.iban']:
    for x in corpus[k]: pool.update(neighbours(iban.compact(x)))
for x in pool:
    o = out(iban.validate, x); g = out(iban.validate, x, check_country=False)
    cc = iban.compact(x)[:2] if isinstance(x,str) else ''
    if cc in nat:
        nm = importlib.import_module('stdnum.'+nat[cc]); no = out(nm.validate, x)
        exp = g if (g[0]=='ok' and no[0]=='ok') else ('verr',)
    else: exp = g
    if o != exp: bad.append((x,o,exp))
print('iban', len(pool), len(bad), bad[:4])
