"""Recon: C02 (fixed point, no surrounding whitespace) on decorated presentations and options."""
import collections
import importlib
import json
import random
import warnings

warnings.simplefilter('ignore')
from stdnum.exceptions import ValidationError  # noqa: E402

corpus = json.load(open('/tmp/explore/corpus.json'))
random.seed(22)
WS = ['\t', '\n', '\r', '\x0b', '\x0c', '\x1c', '\x1d', '\x1e', '\x1f', '\x85', ' ', ' ', ' ', '\xa0', '　']
SEP = list(' -./:,*_\'') + ['–', '．', '／']
OPTS = {
    'stdnum.isbn': [dict(convert=True)],
    'stdnum.isan': [dict(strip_check_digits=True), dict(add_check_digits=True), dict(strip_check_digits=True, add_check_digits=True)],
    'stdnum.meid': [dict(strip_check_digit=False)],
    'stdnum.iban': [dict(check_country=False)],
    'stdnum.mx.rfc': [dict(validate_check_digits=True)],
    'stdnum.mx.curp': [dict(validate_check_digits=False)],
    'stdnum.mac': [dict(validate_manufacturer=False), dict(validate_manufacturer=True)],
    'stdnum.lt.asmens': [dict(validate_birth_date=False)],
    'stdnum.kr.rrn': [dict(allow_future=False)],
    'stdnum.fi.hetu': [dict(allow_temporary=True)],
    'stdnum.gs1_128': [dict(separator='|')],
}


def out(f, *a, **k):
    try:
        return ('ok', f(*a, **k))
    except ValidationError:
        return ('verr',)
    except Exception as e:  # noqa
        return ('EXC', type(e).__name__)


res = collections.defaultdict(list)
n = acc = 0
for name, nums in corpus.items():
    m = importlib.import_module(name)
    for x in nums[:25]:
        for o in [{}] + OPTS.get(name, []):
            cands = [x]
            for _ in range(25):
                y = x
                for _ in range(random.randint(1, 2)):
                    i = random.randrange(len(y) + 1)
                    y = y[:i] + random.choice(WS + SEP) + y[i:]
                if random.random() < .3:
                    y = y.lower()
                if random.random() < .2:
                    y = y.swapcase()
                cands.append(y)
            for y in cands:
                n += 1
                r = out(m.validate, y, **o)
                if r[0] != 'ok' or not isinstance(r[1], str):
                    continue
                acc += 1
                v = r[1]
                r2 = out(m.validate, v, **o)
                if r2 != ('ok', v):
                    res['not-fixed-point', name, str(o)].append((y, v, r2))
                if v != v.strip():
                    res['whitespace', name, str(o)].append((y, v))
print(n, acc)
for k, v in sorted(res.items()):
    print(k, len(v), v[:2])
