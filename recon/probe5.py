"""Recon: discover (argument, check-slice) conventions of check-digit generators on the corpus.

For every public calc_* function of every module and every valid corpus
number v, try candidate argument projections and check slices and keep the
pairs consistent over ALL valid numbers the function applies to.  Output is a
draft of the hand-written C05 convention table (to be confirmed by reading
each validate()).
"""
import collections
import importlib
import inspect
import json
import warnings

warnings.simplefilter('ignore')
from stdnum.util import get_number_modules  # noqa: E402

corpus = json.load(open('/tmp/explore/corpus.json'))
ARGS = {
    'v': lambda v: v, 'v[:-1]': lambda v: v[:-1], 'v[:-2]': lambda v: v[:-2], 'v[:-3]': lambda v: v[:-3],
    'v[1:]': lambda v: v[1:], 'v[2:]': lambda v: v[2:], 'v[1:-1]': lambda v: v[1:-1], 'v[3:-1]': lambda v: v[3:-1],
    'v[1:9]': lambda v: v[1:9], 'v[:6]': lambda v: v[:6], 'v[:7]': lambda v: v[:7], 'v[:8]': lambda v: v[:8],
    'v[8:-1]': lambda v: v[8:-1], 'v[:7]+v[8:]': lambda v: v[:7] + v[8:], 'v[2:7]+v[0]': lambda v: v[2:7] + v[0],
}
found = {}
GENERIC = ('stdnum.luhn', 'stdnum.verhoeff', 'stdnum.damm', 'stdnum.iso7064')
for m in get_number_modules():
    if m.__name__.startswith(GENERIC):
        continue
    fns = [n for n, f in vars(m).items() if inspect.isfunction(f) and n.startswith('calc_') and not n.startswith('_')]
    if not fns:
        continue
    vs = []
    for x in corpus[m.__name__]:
        try:
            v = m.validate(x)
            if isinstance(v, str):
                vs.append(v)
        except Exception:  # noqa
            pass
    vs = sorted(set(vs))
    for fn in fns:
        f = getattr(m, fn)
        tally = collections.Counter()
        applies = collections.Counter()
        for v in vs:
            for an, a in ARGS.items():
                try:
                    r = f(a(v))
                except Exception:  # noqa
                    continue
                if not isinstance(r, str) or not r:
                    continue
                k = len(r)
                for sl in sorted({(-k, None), (0, k)} | {(i, i + k) for i in range(len(v) - k + 1)}):
                    s = v[sl[0]:sl[1]]
                    if s == r:
                        tally[an, sl] += 1
        best = tally.most_common(3)
        found[m.__name__, fn] = (len(vs), best)
n_full = 0
for (mn, fn), (n, best) in sorted(found.items()):
    full = [b for b in best if b[1] == n]
    n_full += bool(full)
    print('%-28s %-32s n=%-4d %s' % (mn[7:], fn, n, full[:2] if full else ('PARTIAL', best[:2])))
print(len(found), 'generator functions;', n_full, 'with a convention consistent over all corpus numbers')
