"""Exploratory: harvest candidate numbers from the repo's doctests/docstrings."""
import re, glob, os, json, warnings, collections
warnings.simplefilter('ignore')
from stdnum.util import get_number_modules
mods = list(get_number_modules())
REPO = '/repo'
def candidates_from_text(text):
    out = set()
    # quoted strings
    for m in re.finditer(r"'([^'\n]{2,60})'", text): out.add(m.group(1))
    for m in re.finditer(r'"([^"\n]{2,60})"', text): out.add(m.group(1))
    # bare lines inside triple-quoted blocks of numbers in tests
    for line in text.splitlines():
        s = line.strip()
        if s.startswith('...'): s = s[3:].strip()
        if 2 <= len(s) <= 60 and not s.startswith('>>>'):
            out.add(s)
    return out
corpus = collections.defaultdict(set)
for m in mods:
    name = m.__name__
    short = name[len('stdnum.'):]
    texts = [open(m.__file__, encoding='utf-8').read()]
    tf = os.path.join(REPO, 'tests', 'test_' + short.replace('.', '_').replace('in__','in_').replace('is__','is_') + '.doctest')
    cands = [tf, tf.replace('_.', '.')]
    for t in cands:
        if os.path.exists(t):
            texts.append(open(t, encoding='utf-8').read())
    for t in texts:
        for c in candidates_from_text(t):
            try:
                if m.is_valid(c) is True:
                    corpus[name].add(c)
            except Exception:
                pass
print(len(corpus), 'modules with >=1 valid')
missing = [m.__name__ for m in mods if not corpus[m.__name__]]
print('missing:', missing)
sizes = sorted((len(v), k) for k, v in corpus.items())
print(sizes[:40])
json.dump({k: sorted(v) for k, v in corpus.items()}, open('/tmp/explore/corpus.json', 'w'), indent=0, ensure_ascii=False)
