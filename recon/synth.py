import json, warnings, collections, importlib, string, random, time
warnings.simplefilter('ignore')
corpus = json.load(open('/tmp/explore/corpus.json'))
random.seed(5)
def cls(ch):
    if ch in string.digits: return string.digits
    if ch in string.ascii_uppercase: return string.ascii_uppercase
    if ch in string.ascii_lowercase: return string.ascii_lowercase
    return None
def ok(m, w):
    try: return m.is_valid(w) is True
    except Exception: return False
def synth(m, v, nmut=2):
    w = list(v)
    idx = [i for i,c in enumerate(w) if cls(c)]
    if not idx: return None
    muts = random.sample(idx, min(nmut, len(idx)))
    for i in muts: w[i] = random.choice(cls(w[i]))
    w = ''.join(w)
    if ok(m, w): return w
    # repair: single position
    for j in reversed(idx):
        if j in muts: continue
        for c in cls(w[j]):
            y = w[:j]+c+w[j+1:]
            if ok(m, y): return y
    # repair: last two class positions jointly
    if len(idx) >= 2:
        a, b = idx[-2], idx[-1]
        for ca in cls(w[a]):
            for cb in cls(w[b]):
                y = list(w); y[a]=ca; y[b]=cb; y=''.join(y)
                if ok(m, y): return y
    return None
stats = {}
t0=time.time()
for name, nums in corpus.items():
    m = importlib.import_module(name)
    vs = []
    for x in nums[:20]:
        try: vs.append(m.validate(x))
        except Exception: pass
    vs=[v for v in vs if isinstance(v,str)]
    if not vs: stats[name]=(0,0,0); continue
    got=set(); tries=0
    for _ in range(40):
        tries+=1
        y = synth(m, random.choice(vs))
        if y and y not in vs: got.add(y)
    stats[name]=(len(got), tries, len(vs))
print('time', time.time()-t0)
bad = sorted((g/t, n, g, t, k) for n,(g,t,k) in stats.items() if t)
print([b for b in bad if b[0] < 0.5])
print('median', bad[len(bad)//2])
