"""Independent reference reader/lookup for numdb registry files (exploration)."""
import re, glob, io, sys, collections
PROP = re.compile(r'([0-9a-zA-Z\-_]+)="([^"]*)"')
class Entry:
    __slots__=('lineno','indent','ranges','props','children','raw')
def parse(text):
    """Strict parser -> (roots, problems)."""
    problems=[]; roots=[]; stack=[(-1, None)]  # (indent, entry)
    for lineno, line in enumerate(text.splitlines(), 1):
        if line.startswith('#') or not line.strip(): continue
        body=line.lstrip(' '); indent=len(line)-len(body)
        if not body or body[0] in '\t': problems.append((lineno,'tab/odd indent'))
        # ranges token = up to first whitespace
        m=re.match(r'(\S+)(\s*)(.*)$', body)
        tok, _, rest = m.groups()
        ranges=[]
        for r in tok.split(','):
            if r=='' : problems.append((lineno,'empty range')); continue
            parts=r.split('-')
            if len(parts)==1: lo=hi=parts[0]
            elif len(parts)==2: lo,hi=parts
            else: problems.append((lineno,'bad range %r'%r)); continue
            if lo=='' or hi=='': problems.append((lineno,'empty endpoint %r'%r)); continue
            if len(lo)!=len(hi): problems.append((lineno,'endpoint lengths differ %r'%r))
            if lo>hi: problems.append((lineno,'unordered %r'%r))
            ranges.append((lo,hi))
        # props: rest must be fully consumed by key="value" tokens separated by whitespace
        pos=0; props={}
        rest_s=rest.rstrip()
        while pos<len(rest_s):
            mm=PROP.match(rest_s,pos)
            if not mm: problems.append((lineno,'unparsed props tail %r'%rest_s[pos:pos+30])); break
            if mm.group(1) in props: problems.append((lineno,'dup prop %s'%mm.group(1)))
            props[mm.group(1)]=mm.group(2); pos=mm.end()
            while pos<len(rest_s) and rest_s[pos]==' ': pos+=1
        e=Entry(); e.lineno=lineno; e.indent=indent; e.ranges=ranges; e.props=props; e.children=[]; e.raw=line
        while stack[-1][0]>=indent: stack.pop()
        parent=stack[-1][1]
        if parent is None:
            if indent!=0: problems.append((lineno,'indented root'))
            roots.append(e)
        else:
            sib=[c.indent for c in parent.children]
            if sib and sib[0]!=indent: problems.append((lineno,'inconsistent sibling indent'))
            parent.children.append(e)
        stack.append((indent,e))
    return roots, problems
def lookup(entries, number):
    """Reference semantics: shortest matching length wins; merge all of that length in file order."""
    if not number: return []
    best=None; matched=[]
    for e in entries:
        for lo,hi in e.ranges:
            L=len(lo)
            if len(number)>=L and lo<=number[:L]<=hi:
                if best is None or L<best: best=L; matched=[e]
                elif L==best: matched.append(e)
    if best is None: return [(number,{})]
    props={}; kids=[]
    for e in matched:
        props.update(e.props); kids.extend(e.children)
    return [(number[:best],props)]+lookup(kids, number[best:])
if __name__=='__main__':
    sys.path.insert(0,'/repo')
    from stdnum import numdb
    for f in sorted(glob.glob('/repo/stdnum/*.dat')+glob.glob('/repo/stdnum/*/*.dat')):
        text=open(f,encoding='utf-8').read()
        roots,problems=parse(text)
        name=f[len('/repo/stdnum/'):-4]
        db=numdb.get(name)
        # reachability
        n=0; unreachable=[]; mism=0
        def walk(entries, prefix_lo, depth):
            global n, mism
            for e in entries:
                for lo,hi in e.ranges:
                    for w in {prefix_lo+lo, prefix_lo+hi}:
                        n+=1
                        r=db.info(w); rr=lookup(roots,w)
                        if r!=rr: mism+=1
                        ok = len(r)>depth and len(r[depth][0])==len(lo) and all(r[depth][1].get(k)==v for k,v in e.props.items())
                        if not ok: unreachable.append((e.lineno, w, r[:depth+1]))
                walk(e.children, prefix_lo+e.ranges[0][0], depth+1)
        walk(roots,'',0)
        print(name, 'problems',len(problems), problems[:3], 'witnesses',n,'mismatch',mism,'unreachable',len(unreachable), unreachable[:3])
