import sys, os, json, importlib.machinery, importlib.util, urllib.parse, warnings, collections, traceback, time
warnings.simplefilter('ignore')
def load():
    so = sys.stdout
    loader = importlib.machinery.SourceFileLoader('stdnum_wsgi', '/repo/online_check/stdnum.wsgi')
    spec = importlib.util.spec_from_loader('stdnum_wsgi', loader)
    mod = importlib.util.module_from_spec(spec); loader.exec_module(mod)
    sys.stdout = so
    return mod
app = load()
def req(number, ajax=False):
    env = {'DOCUMENT_ROOT': '/repo', 'SCRIPT_NAME': '/online_check/stdnum.wsgi', 'QUERY_STRING': urllib.parse.urlencode({'number': number})}
    if ajax: env['HTTP_X_REQUESTED_WITH'] = 'XMLHttpRequest'
    st = {}
    def sr(status, headers): st['status'] = status; st['headers'] = headers
    body = b''.join(app.application(env, sr))
    return st, body
corpus = json.load(open('/tmp/explore/corpus.json'))
bad = collections.defaultdict(list); n = 0
t0 = time.time()
for name, nums in corpus.items():
    for x in nums[:6]:
        for ajax in (False, True):
            n += 1
            try:
                st, body = req(x, ajax)
                if ajax: json.loads(body)
            except Exception as e:
                tb = traceback.extract_tb(e.__traceback__)[-1]
                bad[(ajax, type(e).__name__, tb.name, str(e)[:60])].append((name, x))
print(n, time.time() - t0)
for k, v in bad.items(): print(k, len(v), v[:3])
st, body = req('10<zq9x>"zq9x\'zq9x&zq9x;', False)
b = body.decode()
import re
print([m.start() for m in re.finditer('zq9x', b)], [b[m.start()-8:m.start()+5] for m in re.finditer('zq9x', b)])
