import multiprocessing as mp, time, sys
def task(i):
    assert 'stdnum.iban' not in sys.modules
    import stdnum.iban
    return stdnum.iban.validate('NL91ABNA0417164300')
if __name__ == '__main__':
    ctx = mp.get_context('spawn')
    t = time.time()
    with ctx.Pool(16, maxtasksperchild=1) as p:
        r = p.map(task, range(320), chunksize=1)
    print('spawn fresh interpreters: 320 tasks', time.time() - t)
