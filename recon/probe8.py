import json, warnings, collections, importlib, random
warnings.simplefilter('ignore')
from stdnum.exceptions import ValidationError
corpus = json.load(open('/tmp/explore/corpus.json'))
def out(f, *a, **k):
    try: return ('ok', f(*a, **k))
    except ValidationError as e: return ('verr', type(e).__name__)
    except Exception as e: return ('EXC', type(e).__name__, str(e)[:50])
M = lambda n: importlib.import_module('stdnum.'+n)
res = collections.defaultdict(list)
def pres(m, v):
    yield v
    if hasattr(m, 'format'):
        f = out(m.format, v)
        if f[0]=='ok': yield f[1]; yield f[1].replace('-', ' ').replace('.', ' '); yield f[1].lower()
    yield ' '.join(v[i:i+3] for i in range(0, len(v), 3))
    yield '-'.join(v[i:i+4] for i in range(0, len(v), 4))
def rel(src, fn, tgt, ident=None, inv=None, kwargs={}):
    s, t = M(src), M(tgt)
    f = getattr(s, fn)
    for x in corpus['stdnum.'+src]:
        v = out(s.validate, x)
        if v[0] != 'ok': continue
        v = v[1]
        base = None
        for p in pres(s, v):
            if out(s.validate, p) != ('ok', v): continue
            c = out(f, p, **kwargs)
            if c[0] != 'ok': res[src, fn, 'conv-fails', c[1]].append((p, c)); continue
            tv = out(t.validate, c[1])
            if tv[0] != 'ok': res[src, fn, 'target-invalid'].append((p, c[1], tv)); continue
            if ident and not ident(v, tv[1]): res[src, fn, 'identity'].append((p, v, tv[1]))
            if base is None: base = tv[1]
            elif tv[1] != base: res[src, fn, 'presentation-dependent'].append((p, tv[1], base))
            if inv:
                iv = out(inv, c[1])
                if iv[0] != 'ok' or out(s.validate, iv[1]) != ('ok', v): res[src, fn, 'inverse'].append((p, c[1], iv))
isbn = M('isbn')
rel('isbn', 'to_isbn13', 'isbn', lambda v, t: len(t)==13 and (t==v or t[3:12]==v[:9]), None)
rel('ismn', 'to_ismn13', 'ismn', lambda v, t: len(t)==13 and t[4:]==v[-9:])
rel('issn', 'to_ean', 'ean', lambda v, t: t[:10]=='977'+v[:7] and t[10:12]=='00')
rel('issn', 'to_ean', 'ean', lambda v, t: t[:10]=='977'+v[:7] and t[10:12]=='13', kwargs={'issue_code':'13'})
rel('cusip', 'to_isin', 'isin', lambda v, t: t[:2]=='US' and t[2:11]==v)
rel('gb.sedol', 'to_isin', 'isin', lambda v, t: t[:4]=='GB00' and t[4:11]==v)
rel('de.wkn', 'to_isin', 'isin', lambda v, t: t[:5]=='DE000' and t[5:11]==v)
rel('es.ccc', 'to_iban', 'es.iban', lambda v, t: t[4:]==v, M('es.iban').to_ccc)
rel('es.ccc', 'to_iban', 'iban', lambda v, t: t[4:]==v)
rel('no.kontonr', 'to_iban', 'no.iban', lambda v, t: t[4:].lstrip('0')==v.lstrip('0'), M('no.iban').to_kontonr)
rel('au.acn', 'to_abn', 'au.abn', lambda v, t: t[2:]==v)
rel('fr.siret', 'to_siren', 'fr.siren', lambda v, t: t==v[:9])
rel('fr.siren', 'to_tva', 'fr.tva', lambda v, t: t[2:]==v)
rel('fr.siret', 'to_tva', 'fr.tva', lambda v, t: t[2:]==v[:9])
rel('pe.cui', 'to_ruc', 'pe.ruc', lambda v, t: t[2:10]==v[:8], M('pe.ruc').to_dni)
rel('pe.ruc', 'to_dni', 'pe.cui', lambda v, t: t==v[2:10])
rel('in_.gstin', 'to_pan', 'in_.pan', lambda v, t: t==v[2:12])
rel('ie.vat', 'convert', 'ie.vat')
rel('es.iban', 'to_ccc', 'es.ccc', lambda v,t: t==v[4:])
rel('no.iban', 'to_kontonr', 'no.kontonr')
rel('it.aic', 'to_base32', 'it.aic', lambda v,t: t==v, M('it.aic').from_base32)
rel('mac', 'to_eui48', 'mac', lambda v,t: t==v)
for k, v in sorted(res.items()): print(k, len(v), v[:3])
# isbn10 inverse
bad=[]
for x in corpus['stdnum.isbn']:
    v = isbn.validate(x)
    for p in pres(isbn, v):
        if out(isbn.validate,p)!=('ok',v): continue
        if len(v)==10:
            r = out(isbn.to_isbn10, isbn.to_isbn13(p))
            if r[0]!='ok' or out(isbn.validate, r[1])!=('ok',v): bad.append((p, isbn.to_isbn13(p), r))
        elif v.startswith('978'):
            r = out(isbn.to_isbn10, p)
            if r[0]!='ok' or out(isbn.validate, r[1])[0]!='ok' or isbn.validate(isbn.to_isbn13(r[1]))!=v: bad.append((p, r))
print('isbn inverse', len(bad), bad[:5])
