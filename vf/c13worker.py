"""Fresh-interpreter worker for C13: executes call specs and prints canonical outcomes as JSON.

usage: python -m vf.c13worker  (job JSON on stdin)
  {"mode": "seq", "steps": [...], "clock": iso}                       -> {"outcomes": [canon, ...]}
  {"mode": "threads", "lists": [[steps], ...], "switch": 1e-6}        -> {"outcomes": [[canon...], ...], "raced": n}
  {"mode": "machine", "pool": path, "seed": n, "n": n, "steps": n}    -> {"trace": [...], "fail": {...}|null, "stats": {...}}
Steps: {"op": "call", "m": module, "f": function, "a": [specs], "k": {specs}} | {"op": "mutate"} (vandalise the last returned container)
"""
import json
import os
import sys
import threading

sys.path.insert(0, os.path.dirname(os.path.dirname(os.path.abspath(__file__))))
deps = os.path.join(os.path.dirname(os.path.dirname(os.path.abspath(__file__))), '.deps')
if os.path.isdir(deps):
    sys.path.append(deps)
sys.dont_write_bytecode = True

from vf import core  # noqa: E402


def resolve(m, f):
    if m == 'util' and f == 'get_cc_module':
        core.use_tree()
        from stdnum.util import get_cc_module
        return get_cc_module
    if m == 'numdb':
        core.use_tree()
        from stdnum import numdb

        def q(name, number):
            return numdb.get(name).info(number)
        return q
    return getattr(core.mod(m), f)


def norm(v, spec):
    """Canonical value: modules by name, dicts sorted, guess_country as a set."""
    import types
    if isinstance(v, types.ModuleType):
        return {'t': 'module', 'v': v.__name__}
    if spec.get('f') == 'guess_country' and isinstance(v, list):
        return {'t': 'sorted-list', 'v': sorted(v)}
    if isinstance(v, dict):
        return {'t': 'dict', 'v': sorted(([repr(k), norm(x, spec)] for k, x in v.items()), key=lambda p: p[0])}
    if isinstance(v, list):
        return {'t': 'list', 'v': [norm(x, spec) for x in v]}
    if isinstance(v, tuple):
        return {'t': 'tuple', 'v': [norm(x, spec) for x in v]}
    return core.enc(v)


_resolved = {}


def do_call(spec):
    core.use_tree()
    core.set_today(spec.get('clock'))
    try:
        fn = _resolved.get((spec['m'], spec['f'])) or resolve(spec['m'], spec['f'])
    except Exception as e:  # noqa: B902
        return json.dumps(['RESOLVE-EXC', type(e).__name__]), None
    core.install_clock()
    args = [core.dec(a) for a in spec.get('a', [])]
    kw = dict((k, core.dec(v)) for k, v in (spec.get('k') or {}).items())
    o = core.out(fn, *args, **kw)
    if o[0] == 'ok':
        return json.dumps(['ok', norm(o[1], spec)], sort_keys=True, default=repr), o[1]
    return json.dumps(list(o)), None


def vandalise(v, depth=0):
    """Deep in-place mutation of a returned container."""
    if depth > 6:
        return
    if isinstance(v, dict):
        for x in list(v.values()):
            vandalise(x, depth + 1)
        for k in list(v):
            v[k] = 'VANDAL'
        v['vandal-key'] = 'VANDAL'
        if depth % 2:
            v.clear()
    elif isinstance(v, list):
        for x in v:
            vandalise(x, depth + 1)
        v.append('VANDAL')
        v[:] = v[::-1]
    elif isinstance(v, (tuple, set, frozenset)):
        for x in v:
            vandalise(x, depth + 1)
    elif isinstance(v, bytearray):
        v[:] = b'VANDAL'


def run_steps(steps):
    outs = []
    last = None
    for s in steps:
        if s['op'] == 'call':
            c, val = do_call(s)
            outs.append(c)
            last = val
        elif s['op'] == 'mutate':
            vandalise(last)
    return outs


def run_threads(job):
    lists = job['lists']
    sys.setswitchinterval(job.get('switch', 1e-6))
    core.use_tree()
    import stdnum  # noqa: F401
    # The modules named in the call lists are imported before the threads start, as an application's own import statements
    # would be: importing a submodule and its package from two threads at once can trip CPython's import-lock deadlock
    # detection, which is not the library's doing. What stays concurrent is what the library loads lazily itself:
    # registries (numdb.get) and country modules (get_cc_module in eu.vat / vatin / iban).
    for lst in lists:
        for s in lst:
            if s['op'] == 'call' and (s['m'], s['f']) not in _resolved:
                try:
                    _resolved[(s['m'], s['f'])] = resolve(s['m'], s['f'])
                except Exception:  # noqa: B902
                    pass
    barrier = threading.Barrier(len(lists))
    results = [None] * len(lists)
    # observe concurrent first use of registries
    from stdnum import numdb
    inflight = {'n': 0, 'max': 0}
    lock = threading.Lock()
    orig_read = numdb.read

    def read(fp):
        with lock:
            inflight['n'] += 1
            inflight['max'] = max(inflight['max'], inflight['n'])
        try:
            return orig_read(fp)
        finally:
            with lock:
                inflight['n'] -= 1
    numdb.read = read

    def work(i):
        barrier.wait()
        try:
            results[i] = run_steps(lists[i])
        except BaseException as e:  # noqa: B902
            results[i] = ['THREAD-EXC %r' % e]
    ts = [threading.Thread(target=work, args=(i,)) for i in range(len(lists))]
    for t in ts:
        t.start()
    for t in ts:
        t.join()
    return {'outcomes': results, 'raced': inflight['max']}


def run_machine(job):
    """Hypothesis rule-based state machine over the call pool, in this (initially fresh) process."""
    import hypothesis
    from hypothesis import HealthCheck, Phase, settings, strategies as st
    from hypothesis.stateful import RuleBasedStateMachine, rule, run_state_machine_as_test
    data = json.load(open(job['pool']))
    pool, pristine = data['pool'], data['pristine']
    trace = []
    fail = {}
    stats = {'calls': 0, 'mutations': 0, 'sequences': 0, 'mutate-then-same-registry': 0}
    seqs = []

    class Fail(Exception):
        pass

    class Machine(RuleBasedStateMachine):
        def __init__(self):
            RuleBasedStateMachine.__init__(self)
            self.last = None
            self.last_i = None
            stats['sequences'] += 1
            self.seq = []
            if len(seqs) < 3:
                seqs.append(self.seq)

        def _call(self, i):
            spec = pool[i]
            c, val = do_call(spec)
            trace.append({'op': 'call', 'i': i})
            if len(self.seq) < 14:
                self.seq.append('%s.%s(%s)' % (spec['m'], spec['f'], ', '.join(repr(core.dec(x))[:30] for x in spec.get('a', []))))
            stats['calls'] += 1
            self.last, self.last_i = val, i
            if c != pristine[i] and not fail:
                fail.update({'i': i, 'got': c, 'want': pristine[i], 'at': len(trace)})
                raise Fail()

        @rule(i=st.integers(0, len(pool) - 1))
        def call(self, i):
            self._call(i)

        @rule()
        def mutate_last(self):
            if self.last is not None:
                vandalise(self.last)
                trace.append({'op': 'mutate'})
                self.seq.append('<mutate returned object in place>')
                stats['mutations'] += 1

        @rule()
        def mutate_and_repeat(self):
            if self.last_i is not None:
                vandalise(self.last)
                trace.append({'op': 'mutate'})
                stats['mutations'] += 1
                stats['mutate-then-same-registry'] += 1
                self._call(self.last_i)

        @rule(i=st.integers(0, len(pool) - 1), d=st.integers(-3, 3))
        def neighbour_call(self, i, d):
            # pool entries are grouped by module/registry: a near index touches the same cache with other arguments
            self._call(max(0, min(len(pool) - 1, i + d)))

    try:
        run_state_machine_as_test(
            hypothesis.seed(job['seed'])(Machine),
            settings=settings(max_examples=job['n'], stateful_step_count=job['steps'], deadline=None, database=None,
                              phases=[Phase.generate], suppress_health_check=list(HealthCheck), report_multiple_bugs=False,
                              verbosity=hypothesis.Verbosity.quiet))
    except Fail:
        pass
    except BaseException as e:  # noqa: B902
        if not fail:
            return {'trace_len': len(trace), 'fail': None, 'stats': stats, 'error': repr(e)[:300]}
    out = {'trace_len': len(trace), 'fail': fail or None, 'stats': stats, 'sample_sequences': seqs}
    if fail:
        out['trace'] = trace[:fail['at']]
    return out


def main():
    job = json.load(sys.stdin)
    # this interpreter exists for one job only: replace the date classes of the datetime module itself (before any stdnum
    # module is imported) so that a "today" read at import time also sees the harness clock
    import datetime
    datetime.date = core.FrozenDate
    datetime.datetime = core.FrozenDateTime
    if job.get('clock'):
        core.set_today(job['clock'])
    if job['mode'] == 'seq':
        res = {'outcomes': run_steps(job['steps'])}
    elif job['mode'] == 'threads':
        res = run_threads(job)
    else:
        res = run_machine(job)
    sys.stdout.write('\n@@RESULT@@' + json.dumps(res))


if __name__ == '__main__':
    main()
