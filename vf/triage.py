"""Helper (not a check): append known-findings lines built from replay files.

usage: python -m vf.triage known <replay.json> "<what fails>"
       python -m vf.triage fixed <replay.json> <commit> "<what failed>"
"""
import json
import sys

from vf import core


def main(argv):
    kind, path = argv[0], argv[1]
    rec = json.load(open(path, encoding='utf-8'))
    meta = json.dumps({'bucket': rec['bucket'], 'sub': rec['sub'], 'case': rec['case']}, ensure_ascii=True, sort_keys=True)
    if kind == 'known':
        head = 'KNOWN-FINDING: property=%s %s' % (rec['property'], argv[2])
    else:
        head = 'fixed: property=%s %s %s' % (rec['property'], argv[2], argv[3])
    assert ' ## ' not in head
    with open(core.KNOWN_FILE, 'a', encoding='utf-8') as f:
        f.write(head + ' ## ' + meta + '\n')
    print(head)


if __name__ == '__main__':
    main(sys.argv[1:])
