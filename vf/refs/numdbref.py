"""Independent reference reader / lookup for numdb registry files (no stdnum import).

Grammar (from the numdb module docstring): comment lines start with '#', blank lines are ignored; a line is
<indent of spaces><ranges><space><key="value" ...>; ranges are comma separated, each `lo` or `lo-hi` with equal-length
endpoints; deeper indentation makes a line a child of the closest preceding line with smaller indentation.
Lookup: among all ranges at a level that match a prefix of the remainder the shortest length wins; all matches of that
length are merged in file order (properties updated, children concatenated); recurse on the remainder; an unmatched
remainder is one property-less part; an empty remainder ends the result.
"""
import re

PROP = re.compile(r'([0-9a-zA-Z\-_]+)="([^"]*)"')


class Entry(object):
    __slots__ = ('lineno', 'indent', 'ranges', 'props', 'children', 'raw', 'problems')


def parse(text):
    """Strict parser -> (roots, problems) with problems = [(lineno, kind, detail)]."""
    problems = []
    roots = []
    stack = [(-1, None)]
    for lineno, line in enumerate(text.splitlines(), 1):
        if line.startswith('#') or not line.strip():
            continue
        body = line.lstrip(' ')
        indent = len(line) - len(body)
        mine = []
        if body[0] in '\t':
            mine.append('tab-indent')
        m = re.match(r'(\S+)(\s*)(.*)$', body)
        tok, _, rest = m.groups()
        ranges = []
        for r in tok.split(','):
            if r == '':
                mine.append('empty-range')
                continue
            parts = r.split('-')
            if len(parts) == 1:
                lo = hi = parts[0]
            elif len(parts) == 2:
                lo, hi = parts
            else:
                mine.append('bad-range')
                continue
            if lo == '' or hi == '':
                mine.append('empty-endpoint')
                continue
            if len(lo) != len(hi):
                mine.append('endpoint-lengths-differ')
            elif lo > hi:
                mine.append('unordered-range')
            ranges.append((lo, hi))
        pos = 0
        props = {}
        rest_s = rest.rstrip()
        while pos < len(rest_s):
            mm = PROP.match(rest_s, pos)
            if not mm:
                mine.append('unparsed-property-text')
                break
            if mm.group(1) in props:
                mine.append('duplicate-property')
            props[mm.group(1)] = mm.group(2)
            pos = mm.end()
            if pos < len(rest_s) and rest_s[pos] not in ' \t':
                mine.append('unparsed-property-text')
                break
            while pos < len(rest_s) and rest_s[pos] in ' \t':
                pos += 1
        e = Entry()
        e.lineno, e.indent, e.ranges, e.props, e.children, e.raw = lineno, indent, ranges, props, [], line
        while stack[-1][0] >= indent:
            stack.pop()
        parent = stack[-1][1]
        if parent is None:
            if indent != 0:
                mine.append('indented-root')
            roots.append(e)
        else:
            sib = [c.indent for c in parent.children]
            if sib and sib[0] != indent:
                mine.append('inconsistent-sibling-indent')
            parent.children.append(e)
        stack.append((indent, e))
        e.problems = mine
        for k in mine:
            problems.append((lineno, k, line.strip()[:80]))
    return roots, problems


_index_cache = {}


def _index(entries):
    """Index one level: singletons by (length, value), true ranges in a list; only a speed-up."""
    key = id(entries)
    big = len(entries) > 50
    if big:
        hit = _index_cache.get(key)
        if hit is not None and hit[0] is entries:
            return hit[1]
    single = {}
    ranges = []
    lengths = set()
    for n, e in enumerate(entries):
        for k, (lo, hi) in enumerate(e.ranges):
            lengths.add(len(lo))
            if lo == hi:
                single.setdefault(lo, []).append((n, k, e))
            else:
                ranges.append((len(lo), lo, hi, n, k, e))
    idx = (single, ranges, sorted(lengths))
    if big:
        _index_cache[key] = (entries, idx)
    return idx


def lookup(entries, number, diag=None):
    """Reference semantics. diag (dict) collects: levels, merges, overrides, lines."""
    if not number:
        return []
    single, ranges, lengths = _index(entries)
    found = []  # (L, file order, entry)
    for L in lengths:
        if L <= len(number):
            for n, k, e in single.get(number[:L], ()):
                found.append((L, n, k, e))
    for L, lo, hi, n, k, e in ranges:
        if len(number) >= L and lo <= number[:L] <= hi:
            found.append((L, n, k, e))
    if not found:
        return [(number, {})]
    best = min(f[0] for f in found)
    longer = any(f[0] > best for f in found)
    matched = [f[3] for f in sorted((f for f in found if f[0] == best), key=lambda f: (f[1], f[2]))]
    props = {}
    if len(matched) == 1:
        props.update(matched[0].props)
        kids = matched[0].children
    else:
        kids = []
        for e in matched:
            props.update(e.props)
            kids.extend(e.children)
    if diag is not None:
        diag['levels'] = diag.get('levels', 0) + 1
        if len(matched) > 1:
            diag['merge'] = True
        if longer:
            diag['override'] = True
        diag.setdefault('lines', []).extend(e.lineno for e in matched)
    return [(number[:best], props)] + lookup(kids, number[best:], diag)


def alphabet(roots):
    s = set()

    def walk(es):
        for e in es:
            for lo, hi in e.ranges:
                s.update(lo)
                s.update(hi)
            walk(e.children)
    walk(roots)
    return ''.join(sorted(s))
