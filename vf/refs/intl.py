"""Independent reference validators for the international identifiers of C07.

Written from the published rules (ISO 2108, GS1 General Specifications, ISO 3297, ISO 10957, ISO 6166, ISO 13616, 3GPP TS 23.003,
ISO 11649, ISO 27729, ISO 17442, IFPI GRid, ANSI X9.6, LSE SEDOL, OpenFIGI, IMO, CAS, ISO 9362, ISO 3901, BIP-13/16/173) and from
the presentation layer each module documents (which separators it strips, prefix, case). Shared with the library, as the property
states ("given the same registry tables"): the look-alike character table of util.clean (verified by C14), the ISIN/ISRC country
lists and the iban.dat / be/banks.dat registries (read with the reference registry reader).
Each reference returns ('ok', canonical) or ('rej', reason code).
"""
import hashlib
import os

from vf import core
from vf.refs import numdbref, tables

D = '0123456789'
U = 'ABCDEFGHIJKLMNOPQRSTUVWXYZ'
AN = D + U


def pres(x, delete, upper=True):
    from stdnum.util import clean
    n = clean(x, delete).strip()
    return n.upper() if upper else n


def alld(s):
    return len(s) > 0 and all(c in D for c in s)


def allan(s):
    return all(c in AN for c in s)


def ok(n):
    return ('ok', n)


def rej(r):
    return ('rej', r)


def ean_ok(n):
    t = sum((3 if i % 2 == 0 else 1) * int(c) for i, c in enumerate(reversed(n[:-1])))
    return (10 - t) % 10 == int(n[-1])


def luhn_ok(digits):
    t = 0
    for i, c in enumerate(reversed(digits)):
        d = int(c)
        if i % 2 == 1:
            d = d * 2
            if d > 9:
                d -= 9
        t += d
    return t % 10 == 0


def mod97(s):
    """ISO 7064 Mod 97-10 remainder of an alphanumeric string (A=10 .. Z=35)."""
    r = 0
    for c in s:
        v = AN.index(c)
        r = (r * (100 if v > 9 else 10) + v) % 97
    return r


def ref_isbn(x):
    n = pres(x, ' -')
    if len(n) == 9:
        n = '0' + n
    if len(n) == 10:
        if not alld(n[:9]) or n[9] not in D + 'X':
            return rej('format')
        t = sum((10 - i) * (10 if c == 'X' else int(c)) for i, c in enumerate(n))
        return ok(n) if t % 11 == 0 else rej('checksum')
    if len(n) == 13:
        if not alld(n):
            return rej('format')
        if not ean_ok(n):
            return rej('checksum')
        if n[:3] not in ('978', '979'):
            return rej('prefix')
        return ok(n)
    if not alld(n[:-1]):
        return rej('format')
    return rej('length')


def ref_ean(x):
    n = pres(x, ' -', upper=False)
    if not alld(n):
        return rej('format')
    if len(n) not in (8, 12, 13, 14):
        return rej('length')
    return ok(n) if ean_ok(n) else rej('checksum')


def ref_issn(x):
    n = pres(x, ' -')
    if len(n) != 8:
        return rej('length')
    if not alld(n[:7]) or n[7] not in D + 'X':
        return rej('format')
    t = sum((8 - i) * (10 if c == 'X' else int(c)) for i, c in enumerate(n))
    return ok(n) if t % 11 == 0 else rej('checksum')


def ref_ismn(x):
    n = pres(x, ' -.')
    if len(n) == 10:
        if n[0] != 'M' or not alld(n[1:]):
            return rej('format')
        return ok(n) if ean_ok('9790' + n[1:]) else rej('checksum')
    if len(n) == 13:
        if not alld(n):
            return rej('format')
        if not n.startswith('9790'):
            return rej('prefix')
        return ok(n) if ean_ok(n) else rej('checksum')
    return rej('length')


def ref_isin(x):
    n = pres(x, ' ')
    if not allan(n):
        return rej('format')
    if len(n) != 12:
        return rej('length')
    if n[:2] not in tables.ISIN_CODES:
        return rej('country')
    if n[11] not in D:
        return rej('checksum')
    digits = ''.join(str(AN.index(c)) for c in n)
    return ok(n) if luhn_ok(digits) else rej('checksum')


_iban_reg = None
_be_banks = None


def iban_registry():
    global _iban_reg
    if _iban_reg is None:
        roots, _ = numdbref.parse(open(os.path.join(core.REPO, 'stdnum', 'iban.dat'), encoding='utf-8').read())
        d = {}
        for e in roots:
            for lo, hi in e.ranges:
                d[lo] = e.props.get('bban', '')
        _iban_reg = d
    return _iban_reg


def be_banks():
    global _be_banks
    if _be_banks is None:
        _be_banks = numdbref.parse(open(os.path.join(core.REPO, 'stdnum', 'be', 'banks.dat'), encoding='utf-8').read())[0]
    return _be_banks


def bban_matches(structure, bban):
    import re
    toks = re.findall(r'([1-9][0-9]*)!([nac])', structure)
    if ''.join('%s!%s' % t for t in toks) != structure or not toks:
        return False
    pos = 0
    for n, k in toks:
        n = int(n)
        part = bban[pos:pos + n]
        if len(part) != n:
            return False
        al = {'n': D, 'a': U, 'c': AN}[k]
        if not all(c in al for c in part):
            return False
        pos += n
    return pos == len(bban)


def national_iban_ok(cc, bban):
    if cc == 'BE':
        if not alld(bban) or len(bban) != 12:
            return False
        chk = int(bban[:10]) % 97 or 97
        if chk != int(bban[10:]):
            return False
        r = numdbref.lookup(be_banks(), bban[:3])
        return bool(r and r[0][1])
    if cc == 'ES':
        if not alld(bban) or len(bban) != 20:
            return False

        def cd(s):
            c = sum(int(n) * (2 ** i % 11) for i, n in enumerate(s)) % 11
            return str(c if c < 2 else 11 - c)
        return bban[8:10] == cd('00' + bban[:8]) + cd(bban[10:])
    if cc == 'NO':
        if not alld(bban) or len(bban) != 11:
            return False
        if bban.startswith('0000'):
            return luhn_ok(bban[4:])
        s = sum(w * int(n) for w, n in zip((5, 4, 3, 2, 7, 6, 5, 4, 3, 2), bban[:10])) % 11
        c = (11 - s) % 11
        return c != 10 and c == int(bban[10])
    if cc == 'ME':
        return alld(bban) and int(bban) % 97 == 1
    return True


def ref_iban(x, check_country=True):
    n = pres(x, ' -.')
    if len(n) < 5 or not allan(n):
        return rej('format')
    cc = n[:2]
    if not alld(n[2:4]):
        return rej('check-digits-not-digits')
    if mod97(n[4:] + n[:4]) != 1 or n[2:4] in ('00', '01', '99'):
        return rej('checksum')
    reg = iban_registry()
    if cc not in reg:
        return rej('country')
    if not bban_matches(reg[cc], n[4:]):
        return rej('structure')
    if check_country and not national_iban_ok(cc, n[4:]):
        return rej('national')
    return ok(n)


def ref_imei(x):
    n = pres(x, ' -')
    if not alld(n):
        return rej('format')
    if len(n) == 15:
        return ok(n) if luhn_ok(n) else rej('checksum')
    if len(n) in (14, 16):
        return ok(n)
    return rej('length')


def ref_iso11649(x):
    n = pres(x, ' -.,/:')
    if len(n) < 5 or len(n) > 25:
        return rej('length')
    if not n.startswith('RF'):
        return rej('prefix')
    if not alld(n[2:4]):
        return rej('check-digits-not-digits')
    if not allan(n):
        return rej('format')
    if n[2:4] in ('00', '01', '99'):
        return rej('check-digits-out-of-range')
    return ok(n) if mod97(n[4:] + n[:4]) == 1 else rej('checksum')


def ref_isni(x):
    n = pres(x, ' -')
    if len(n) != 16:
        return rej('length') if alld(n[:-1]) else rej('format')
    if not alld(n[:15]) or n[15] not in D + 'X':
        return rej('format')
    c = 0
    for ch in n:
        c = (2 * c + (10 if ch == 'X' else int(ch))) % 11
    return ok(n) if c == 1 else rej('checksum')


def ref_lei(x):
    n = pres(x, ' -')
    if len(n) != 20:
        return rej('length')
    if not allan(n[:18]) or not alld(n[18:]):
        return rej('format')
    if n[18:] in ('00', '01', '99'):
        return rej('check-digits-out-of-range')
    return ok(n) if mod97(n) == 1 else rej('checksum')


def ref_grid(x):
    n = pres(x, ' -')
    if n.startswith('GRID:'):
        n = n[5:]
    if len(n) != 18:
        return rej('length')
    if not allan(n):
        return rej('format')
    c = 18
    for ch in n:
        c = (((c or 36) * 2) % 37 + AN.index(ch)) % 36
    return ok(n) if c == 1 else rej('checksum')


def ref_cusip(x):
    n = pres(x, ' ')
    al = AN + '*@#'
    if not all(c in al for c in n):
        return rej('format')
    if len(n) != 9:
        return rej('length')
    t = 0
    for i, c in enumerate(n[:8]):
        v = al.index(c) * (2 if i % 2 else 1)
        t += v // 10 + v % 10
    return ok(n) if n[8] in D and (10 - t % 10) % 10 == int(n[8]) else rej('checksum')


def ref_sedol(x):
    n = pres(x, ' ')
    al = D + 'BCDFGHJKLMNPQRSTVWXYZ'
    if not all(c in al for c in n):
        return rej('format')
    if len(n) != 7:
        return rej('length')
    if n[0] in D and not alld(n):
        return rej('old-style-not-numeric')
    if n[6] not in D:
        return rej('checksum')
    t = sum(w * AN.index(c) for w, c in zip((1, 3, 1, 7, 3, 9, 1), n))
    return ok(n) if t % 10 == 0 else rej('checksum')


def ref_figi(x):
    n = pres(x, ' ')
    al = D + 'BCDFGHJKLMNPQRSTVWXYZ'
    if not all(c in al for c in n):
        return rej('format')
    if len(n) != 12:
        return rej('length')
    if n[0] in D or n[1] in D:
        return rej('format')
    if n[:2] in ('BS', 'BM', 'GG', 'GB', 'VG'):
        return rej('prefix')
    if n[2] != 'G':
        return rej('third-char')
    if n[11] not in D:
        return rej('checksum')
    t = 0
    for i, c in enumerate(n[:11]):
        v = AN.index(c) * (2 if i % 2 else 1)
        t += v // 10 + v % 10
    return ok(n) if (10 - t % 10) % 10 == int(n[11]) else rej('checksum')


def ref_imo(x):
    n = pres(x, ' ')
    if n.startswith('IMO'):
        n = n[3:]
    if not alld(n):
        return rej('format')
    if len(n) != 7:
        return rej('length')
    return ok(n) if sum(int(c) * (7 - i) for i, c in enumerate(n[:6])) % 10 == int(n[6]) else rej('checksum')


def ref_casrn(x):
    n = pres(x, ' ', upper=False)
    if '-' not in n:
        n = '%s-%s-%s' % (n[:-3], n[-3:-1], n[-1:])
    if not 7 <= len(n) <= 12:
        return rej('length')
    parts = n.split('-')
    if len(parts) != 3 or not all(alld(p) for p in parts):
        return rej('format')
    a, b, c = parts
    if not (2 <= len(a) <= 7 and len(b) == 2 and len(c) == 1 and a[0] != '0'):
        return rej('format')
    t = sum((i + 1) * int(d) for i, d in enumerate(reversed(a + b)))
    return ok(n) if t % 10 == int(c) else rej('checksum')


def ref_bic(x):
    n = pres(x, ' -')
    if len(n) not in (8, 11):
        return rej('length')
    if not all(c in U for c in n[:6]) or not allan(n[6:]):
        return rej('format')
    return ok(n)


def ref_isrc(x):
    n = pres(x, ' -')
    if len(n) != 12:
        return rej('length')
    if not (all(c in U for c in n[:2]) and allan(n[2:5]) and alld(n[5:])):
        return rej('format')
    if n[:2] not in tables.ISRC_CODES:
        return rej('country')
    return ok(n)


B58 = '123456789ABCDEFGHJKLMNPQRSTUVWXYZabcdefghijkmnopqrstuvwxyz'
B32 = 'qpzry9x8gf2tvdw0s3jn54khce6mua7l'


def b58dec(s):
    v = 0
    for c in s:
        v = v * 58 + B58.index(c)
    body = v.to_bytes((v.bit_length() + 7) // 8, 'big') if v else b''
    return b'\x00' * (len(s) - len(s.lstrip('1'))) + body


def b58enc(b):
    v = int.from_bytes(b, 'big')
    s = ''
    while v:
        v, r = divmod(v, 58)
        s = B58[r] + s
    return '1' * (len(b) - len(b.lstrip(b'\x00'))) + s


def b58check(version, payload):
    body = bytes([version]) + payload
    return b58enc(body + hashlib.sha256(hashlib.sha256(body).digest()).digest()[:4])


def bech32_polymod(values):
    gen = (0x3b6a57b2, 0x26508e6d, 0x1ea119fa, 0x3d4233dd, 0x2a1462b3)
    chk = 1
    for v in values:
        b = chk >> 25
        chk = (chk & 0x1ffffff) << 5 ^ v
        for i in range(5):
            chk ^= gen[i] if ((b >> i) & 1) else 0
    return chk


def hrp_expand(hrp):
    return [ord(c) >> 5 for c in hrp] + [0] + [ord(c) & 31 for c in hrp]


def convertbits(data, frm, to, padding):
    acc, bits, ret = 0, 0, []
    maxv = (1 << to) - 1
    for v in data:
        acc = (acc << frm) | v
        bits += frm
        while bits >= to:
            bits -= to
            ret.append((acc >> bits) & maxv)
    if padding:
        if bits:
            ret.append((acc << (to - bits)) & maxv)
    elif bits >= frm or ((acc << (to - bits)) & maxv):
        return None
    return ret


def bech32_encode(witver, prog):
    data = [witver] + convertbits(list(prog), 8, 5, True)
    pm = bech32_polymod(hrp_expand('bc') + data + [0] * 6) ^ 1
    return 'bc1' + ''.join(B32[d] for d in data + [(pm >> 5 * (5 - i)) & 31 for i in range(6)])


def bech32_encode_groups(groups):
    """Bech32 string for an explicit list of 5-bit groups (witness version first), whatever their padding."""
    pm = bech32_polymod(hrp_expand('bc') + list(groups) + [0] * 6) ^ 1
    return 'bc1' + ''.join(B32[d] for d in list(groups) + [(pm >> 5 * (5 - i)) & 31 for i in range(6)])


def ref_bitcoin(x):
    n = pres(x, ' ', upper=False)
    if n[:3].lower() == 'bc1':
        if n != n.lower() and n != n.upper():
            return rej('mixed-case')
        n = n.lower()
        if not all(c in B32 for c in n[3:]):
            return rej('format')
        if len(n) < 11 or len(n) > 90:
            return rej('length')
        data = [B32.index(c) for c in n[3:]]
        if bech32_polymod(hrp_expand('bc') + data) != 1:
            return rej('checksum')
        prog = convertbits(data[1:-6], 5, 8, False)
        if prog is None:
            return rej('padding')
        if data[0] > 16:
            return rej('witness-version')
        if len(prog) < 2 or len(prog) > 40:
            return rej('program-length')
        if data[0] == 0 and len(prog) not in (20, 32):
            return rej('program-length')
        return ok(n)
    if n[:1] in ('1', '3'):
        if not all(c in B58 for c in n):
            return rej('format')
        raw = b58dec(n)
        if len(raw) != 25:
            return rej('length')
        if hashlib.sha256(hashlib.sha256(raw[:-4]).digest()).digest()[:4] != raw[-4:]:
            return rej('checksum')
        if raw[0] != (0 if n[0] == '1' else 5):
            return rej('version-byte')
        return ok(n)
    return rej('prefix')


REFS = {
    'isbn': ref_isbn, 'ean': ref_ean, 'issn': ref_issn, 'ismn': ref_ismn, 'isin': ref_isin, 'iban': ref_iban, 'imei': ref_imei,
    'iso11649': ref_iso11649, 'isni': ref_isni, 'lei': ref_lei, 'grid': ref_grid, 'cusip': ref_cusip, 'gb.sedol': ref_sedol,
    'figi': ref_figi, 'imo': ref_imo, 'casrn': ref_casrn, 'bic': ref_bic, 'isrc': ref_isrc, 'bitcoin': ref_bitcoin,
}
