"""Independent value model for GS1-128 element strings (DESIGN C16).

Written from the GS1 General Specifications and the `format`/`type`/`fnc1` columns of gs1_ai.dat (read with the
reference registry reader). Nothing here calls stdnum.gs1_128.
"""
import datetime
import decimal
import os
import re

from hypothesis import strategies as st

from vf import core
from vf.refs import numdbref

CSET82 = '!"%&\'*+,-./0123456789:;<=>?ABCDEFGHIJKLMNOPQRSTUVWXYZ_abcdefghijklmnopqrstuvwxyz'  # ( ) handled below
CSET39 = '#-/0123456789ABCDEFGHIJKLMNOPQRSTUVWXYZ'
CSET64 = 'ABCDEFGHIJKLMNOPQRSTUVWXYZabcdefghijklmnopqrstuvwxyz0123456789-_'

_ais = None


def ais():
    """{ai: props} from the registry file of the tree under test."""
    global _ais
    if _ais is None:
        text = open(os.path.join(core.REPO, 'stdnum', 'gs1_ai.dat'), encoding='utf-8').read()
        roots, _ = numdbref.parse(text)
        d = {}
        for e in roots:
            for lo, hi in e.ranges:
                for n in range(int(lo), int(hi) + 1):
                    d[str(n).zfill(len(lo))] = dict(e.props)
        _ais = d
    return _ais


def components(fmt):
    """Parse a format into [(kind, variable, k, optional)]; kind in N X Y Z or '-' (optional literal minus)."""
    out = []
    optional = False
    for part in fmt.split('+'):
        if part == '[-]':
            out.append(('-', False, 1, True))
            continue
        if part.endswith('['):
            part = part[:-1]
            nxt_optional = True
        else:
            nxt_optional = False
        this_optional = optional
        if part.endswith(']'):
            part = part[:-1]
        m = re.match(r'^([NXYZ])(\.\.)?(\d+)$', part)
        if not m:
            raise core.HarnessError('GS1 format not understood by the model: %r' % fmt)
        out.append((m.group(1), bool(m.group(2)), int(m.group(3)), this_optional))
        optional = nxt_optional
    return out


def modelled(ai):
    """True if the value model understands the registered format/type of this AI (a registry update may add new ones)."""
    p = ais()[ai]
    try:
        comps = components(p.get('format', ''))
    except core.HarnessError:
        return False
    typ = p.get('type')
    if typ == 'str':
        return True
    if typ == 'int':
        return len(comps) == 1 and comps[0][0] == 'N'
    if typ == 'decimal':
        return len(comps) in (1, 2) and all(c[0] == 'N' for c in comps)
    if typ == 'date':
        return p['format'] in ('N6', 'N6[+N6]', 'N6..12', 'N10', 'N6[+N4]', 'N6+N..4', 'N6[+N..4]', 'N8[+N..4]', 'N8+N..4')
    return False


def maxlen(fmt, typ):
    return sum(k for _, _, k, _ in components(fmt)) + (1 if typ == 'decimal' else 0)


def alphabet(kind, sep):
    a = {'N': '0123456789', 'X': CSET82, 'Y': CSET39, 'Z': CSET64}[kind]
    if len(sep) > 1:
        # a value must not contain the separator string; excluding its first character is the simple sufficient rule
        sep = sep[0]
    return ''.join(c for c in a if c not in sep)


def gtin14(draw):
    body = draw(st.text(alphabet='0123456789', min_size=13, max_size=13))
    s = sum((3, 1)[i % 2] * int(n) for i, n in enumerate(reversed(body)))
    return body + str((10 - s) % 10)


IBANS = ['NL91ABNA0417164300', 'GB82WEST12345698765432', 'DE89370400440532013000', 'FR1420041010050500013M02606']


def last_day(y, m):
    if m == 12:
        return datetime.date(y, 12, 31)
    return datetime.date(y, m + 1, 1) - datetime.timedelta(days=1)


@st.composite
def value(draw, ai, sep):
    """Draw (encoded text, python value) for the AI."""
    p = ais()[ai]
    fmt, typ = p['format'], p['type']
    if ai in ('01', '02'):
        v = gtin14(draw)
        return v, v
    if ai == '8007':
        v = draw(st.sampled_from(IBANS))  # valid IBANs (ISO 13616 examples)
        # ... also in the spellings the IBAN validator accepts (lower / mixed case, grouped with hyphens): the element string
        # carries the text as given
        mode = draw(st.integers(0, 4))
        if mode == 1:
            v = v.lower()
        elif mode == 2:
            v = v[:4].lower() + v[4:]
        elif mode == 3 and len(v) + (len(v) - 1) // 4 <= 34 and '-' not in sep:
            v = '-'.join(v[i:i + 4] for i in range(0, len(v), 4))
        return v, v
    if typ == 'str':
        out = ''
        for kind, var, k, opt in components(fmt):
            if opt and draw(st.integers(0, 2)) == 0:
                break
            if kind == '-':
                out += '-'
                continue
            n = draw(st.one_of(st.integers(1, k), st.just(k), st.just(1), st.integers(max(1, k - 7), k))) if var else k
            al = alphabet(kind, sep)
            out += draw(st.text(alphabet=al, min_size=n, max_size=n))
        return out, out
    if typ == 'int':
        (kind, var, k, _), = components(fmt)
        n = draw(st.integers(1, k)) if var else k
        s = draw(st.text(alphabet='0123456789', min_size=n, max_size=n))
        return s, int(s)
    if typ == 'decimal':
        comps = components(fmt)
        pre = ''
        if len(comps) == 2:
            pre = draw(st.text(alphabet='0123456789', min_size=3, max_size=3))
            comps = comps[1:]
        (kind, var, k, _), = comps
        if var:
            n = draw(st.integers(1, k))
            dp = draw(st.integers(0, min(9, n)))  # implied places within the digits present
        else:
            n = k
            dp = draw(st.integers(0, k - 1))
        digs = draw(st.one_of(st.text(alphabet='0123456789', min_size=n, max_size=n), st.text(alphabet='0123456789', min_size=n, max_size=n),
                              st.just('0' * n), st.just('0' * (n - 1) + '1')))  # zero / smallest value with many decimals
        val = decimal.Decimal((digs[:n - dp] or '0') + ('.' + digs[n - dp:] if dp else ''))
        enc = str(dp) + pre + digs
        return enc, ((pre, val) if pre else val)
    if typ == 'date':
        # two-digit years follow the POSIX pivot the library inherits from strptime('%y'): 69-99 -> 19xx, 00-68 -> 20xx
        y = draw(st.one_of(st.integers(2000, 2049), st.integers(1969, 2068), st.sampled_from([1969, 1999, 2000, 2068])))
        mth = draw(st.integers(1, 12))
        d = datetime.date(y, mth, draw(st.integers(1, last_day(y, mth).day)))
        if fmt == 'N6':
            if draw(st.integers(0, 3)) == 0:
                return d.strftime('%y%m') + '00', last_day(y, mth)
            return d.strftime('%y%m%d'), d
        if fmt in ('N6[+N6]', 'N6..12'):
            if draw(st.booleans()):
                return d.strftime('%y%m%d'), d
            d2 = min(d + datetime.timedelta(days=draw(st.integers(0, 400))), datetime.date(2068, 12, 31))  # window of two-digit years
            e1, e2 = d.strftime('%y%m%d'), d2.strftime('%y%m%d')
            # day 00 = last day of the month, in either half of the pair
            z = draw(st.integers(0, 5))
            if z in (1, 3):
                e1, d = d.strftime('%y%m') + '00', last_day(d.year, d.month)
            if z in (2, 3):
                e2, d2 = d2.strftime('%y%m') + '00', last_day(d2.year, d2.month)
            return e1 + e2, (d, d2)
        hh, mm, ss = draw(st.integers(0, 23)), draw(st.integers(0, 59)), draw(st.integers(0, 59))
        if fmt == 'N10':
            dt = datetime.datetime(d.year, d.month, d.day, hh, mm)
            return dt.strftime('%y%m%d%H%M'), dt
        if fmt in ('N6[+N4]', 'N6+N..4', 'N6[+N..4]'):
            if draw(st.integers(0, 3)) == 0:
                return d.strftime('%y%m%d'), d
            dt = datetime.datetime(d.year, d.month, d.day, hh, mm)
            return dt.strftime('%y%m%d%H%M'), dt
        if fmt in ('N8[+N..4]', 'N8+N..4'):
            r = draw(st.integers(0, 2))
            if r == 0:
                dt = datetime.datetime(d.year, d.month, d.day, hh)
                return dt.strftime('%y%m%d%H'), dt
            if r == 1:
                dt = datetime.datetime(d.year, d.month, d.day, hh, mm)
                return dt.strftime('%y%m%d%H%M'), dt
            dt = datetime.datetime(d.year, d.month, d.day, hh, mm, ss)
            return dt.strftime('%y%m%d%H%M%S'), dt
        raise core.HarnessError('GS1 date format not understood by the model: %r' % fmt)
    raise core.HarnessError('GS1 type not understood by the model: %r' % typ)


def pad(ai, enc):
    """Pad a non-last variable field to its maximum length (the convention encode() documents); None = cannot."""
    p = ais()[ai]
    fmt, typ = p['format'], p['type']
    L = maxlen(fmt, typ)
    if len(enc) == L:
        return enc
    if typ == 'int':
        return enc.rjust(L, '0')
    if typ == 'decimal':
        pre = 3 if fmt.startswith('N3+') else 0
        return enc[0] + enc[1:1 + pre] + enc[1 + pre:].rjust(L - 1 - pre, '0')
    if typ == 'date':
        return None
    return enc.ljust(L)


def build(items, sep, parens):
    """Own encoder: items in the given order; returns None if the order cannot be expressed."""
    s = ''
    for i, (ai, enc) in enumerate(items):
        last = i == len(items) - 1
        variable = bool(ais()[ai].get('fnc1'))
        if variable and not last:
            if sep:
                enc = enc + sep
            else:
                enc = pad(ai, enc)
                if enc is None:
                    return None
        s += ('(%s)' % ai if parens else ai) + enc
    return s


def simple_value(ai):
    """A fixed simple (encoded, value) for the C11 consumer witness."""
    from hypothesis import HealthCheck, Phase, given, seed, settings
    box = {}

    @seed(core.subseed('gs1', ai))
    @settings(max_examples=1, database=None, deadline=None, phases=[Phase.generate], suppress_health_check=list(HealthCheck))
    @given(value(ai, ''))
    def t(v):
        box.setdefault('v', v)
    t()
    return box['v']


def full_value(ai):
    """The value that fills the registered format completely (every optional part present, maximum lengths)."""
    p = ais()[ai]
    fmt, typ = p['format'], p['type']
    if ai in ('01', '02'):
        return '00000000000017', '00000000000017'
    if ai == '8007':
        return IBANS[-1], IBANS[-1]
    if typ == 'str':
        out = ''
        for kind, var, k, opt in components(fmt):
            out += '-' if kind == '-' else alphabet(kind, '')[1] * k
        return out, out
    if typ == 'int':
        k = components(fmt)[0][2]
        return '9' * k, int('9' * k)
    if typ == 'decimal':
        comps = components(fmt)
        pre = '978' if len(comps) == 2 else ''
        k = comps[-1][2]
        digs = '1' * k
        return '2' + pre + digs, ((pre, decimal.Decimal(digs[:-2] + '.' + digs[-2:])) if pre else decimal.Decimal(digs[:-2] + '.' + digs[-2:]))
    if typ == 'date':
        d = datetime.date(2024, 2, 29)
        if fmt == 'N6':
            return '240229', d
        if fmt in ('N6[+N6]', 'N6..12'):
            return '240229240301', (d, datetime.date(2024, 3, 1))
        if fmt == 'N10' or fmt in ('N6[+N4]', 'N6+N..4', 'N6[+N..4]'):
            return '2402291234', datetime.datetime(2024, 2, 29, 12, 34)
        if fmt in ('N8[+N..4]', 'N8+N..4'):
            return '240229123456', datetime.datetime(2024, 2, 29, 12, 34, 56)
    raise core.HarnessError('GS1 format not understood by the model: %r / %r' % (fmt, typ))


def consumer_witness(ai_lo, props):
    """C11: the AI can be encoded and decoded, with and without separator, for a drawn value and for the value that
    fills the registered format completely."""
    m = core.mod('gs1_128')
    if not modelled(ai_lo):
        # a format / type combination the value model does not know (registry newer than the model): the value cannot be
        # predicted, but the entry still has to be usable - some plausible text of the registered length must decode and
        # validate, with and without separator
        try:
            L = maxlen(props.get('format', ''), props.get('type'))
        except Exception:  # noqa: B902
            return ('consumer:gs1_128-format-not-understood', props.get('format'))
        cands = [c[:L] for c in ('198007051230', '8007051230', '800705123000', '1' * L, '123456789012345678901234567890') if len(c) >= L]
        last = None
        for enc in cands:
            ok = True
            for sep in ('', '|'):
                last = core.out(m.info, ai_lo + enc, sep)
                v = core.out(m.validate, ai_lo + enc, sep)
                if last[0] != 'ok' or v[0] != 'ok':
                    ok = False
                    last = last if last[0] != 'ok' else v
                    break
            if ok:
                return None
        return ('consumer:gs1_128-decodes-no-value-of-the-registered-format', (props.get('format'), props.get('type'), last))
    cands = [simple_value(ai_lo), full_value(ai_lo)]
    for enc, val in cands:
        bad = _roundtrip(m, ai_lo, enc, val)
        if bad:
            return bad
    return None


def _roundtrip(m, ai_lo, enc, val):
    for sep in ('', '|'):
        r = core.out(m.encode, {ai_lo: val}, sep)
        if r[0] != 'ok':
            return ('consumer:gs1_128.encode', (val, r))
        b = core.out(m.info, r[1], sep)
        if b != ('ok', {ai_lo: val}):
            return ('consumer:gs1_128.info(encode)', (val, r[1], b))
        d = core.out(m.info, ai_lo + enc, sep)
        if d != ('ok', {ai_lo: val}):
            return ('consumer:gs1_128.info', (ai_lo + enc, d))
    return None
