def consumer_witness(ai, props):
    return None
