"""Generators shared by the checks (DESIGN 2.3, 2.4): corpus, valid-number pools,
mutate-and-repair synthesiser, presentations, hostile values, option table."""
import collections
import json
import os
import string
import unicodedata

from hypothesis import strategies as st

from vf import core

# --------------------------------------------------------------------------
# corpus

_corpus = None


def corpus():
    global _corpus
    if _corpus is None:
        with open(os.path.join(core.VERIF, 'corpus', 'corpus.json'), encoding='utf-8') as f:
            _corpus = json.load(f)
    return _corpus


_harvested = {}


def _harvest(name):
    """Fallback for a module the committed corpus does not know (added to the library later): harvest candidate
    literals from its docstring and doctest file, exactly as vf/harvest.py did for the corpus."""
    if name not in _harvested:
        import re
        m = core.number_modules().get(name)
        valid, invalid = [], []
        if m is not None:
            texts = []
            try:
                texts.append(open(m.__file__, encoding='utf-8').read())
            except OSError:
                pass
            t = os.path.join(core.REPO, 'tests', 'test_' + name.replace('.', '_').replace('in__', 'in_').replace('is__', 'is_') + '.doctest')
            if os.path.exists(t):
                texts.append(open(t, encoding='utf-8').read())
            cands = set()
            for text in texts:
                cands.update(re.findall(r"'([^'\n]{2,80})'", text))
                cands.update(re.findall(r'"([^"\n]{2,80})"', text))
                for line in text.splitlines():
                    x = line.strip()
                    if x.startswith('...'):
                        x = x[3:].strip()
                    if 2 <= len(x) <= 80 and not x.startswith('>>>'):
                        cands.add(x)
            for c in sorted(cands):
                o = core.out(m.validate, c)
                if o[0] == 'ok':
                    valid.append(c)
                elif re.search(r'[0-9]', c) and len(c) <= 50 and not re.search(r'[=(){}\[\]]|>>>|import', c):
                    invalid.append(c)
        _harvested[name] = {'valid': valid, 'invalid': invalid[:60]}
    return _harvested[name]


def seeds(name):
    if name not in corpus():
        return _harvest(name)['valid']
    return corpus()[name].get('valid', [])


def near_misses(name):
    if name not in corpus():
        return _harvest(name)['invalid']
    return corpus()[name].get('invalid', [])


_pool_cache = {}
stats = collections.Counter()


def pool(name, **opts):
    """Distinct canonical valid numbers of module `name` according to the tree under test."""
    key = (name, tuple(sorted(opts.items())), core.get_today())
    if key not in _pool_cache:
        m = core.number_modules()[name]
        vs = []
        seen = set()
        lost = 0
        for x in seeds(name):
            o = core.out(m.validate, x, **opts)
            if o[0] == 'ok' and isinstance(o[1], str):
                if o[1] not in seen and core.out(m.validate, o[1], **opts)[0] == 'ok':
                    seen.add(o[1])
                    vs.append(o[1])
            else:
                lost += 1
        # numbers of the sibling modules of the same country that this module accepts as well (a VAT number that is a
        # personal number, a union type over several identifiers): rare kinds the module's own examples do not show
        if '.' in name:
            pkg = name.split('.')[0] + '.'
            for sib in sorted(n for n in core.number_modules() if n.startswith(pkg) and n != name):
                for x in seeds(sib)[:40]:
                    o = core.out(m.validate, x, **opts)
                    if o[0] == 'ok' and isinstance(o[1], str) and o[1] not in seen and core.out(m.validate, o[1], **opts)[0] == 'ok':
                        seen.add(o[1])
                        vs.append(o[1])
                        stats['pool_from_sibling'] += 1
        if name in ('vatin', 'eu.vat'):
            # the dispatchers: a few numbers of every country that has a VAT module, with the country prefix
            from stdnum.util import get_cc_module
            ccs = sorted(set(n.split('.')[0].rstrip('_') for n in core.number_modules() if '.' in n)) + ['el', 'xi', 'eu', 'im']
            for cc in ccs:
                try:
                    sub = get_cc_module(cc if cc not in ('el', 'xi', 'eu', 'im') else {'el': 'gr', 'xi': 'gb'}.get(cc, 'eu'), 'vat')
                except Exception:  # noqa: B902
                    sub = None
                sname = sub.__name__[7:] if sub is not None else None
                if sname not in core.number_modules():
                    continue
                for x in seeds(sname)[:5]:
                    for cand in (cc.upper() + x, x):
                        o = core.out(m.validate, cand, **opts)
                        if o[0] == 'ok' and isinstance(o[1], str) and o[1] not in seen and core.out(m.validate, o[1], **opts)[0] == 'ok':
                            seen.add(o[1])
                            vs.append(o[1])
                            stats['pool_from_country_vat'] += 1
        _pool_cache[key] = (vs, lost)
    return _pool_cache[key][0]


def accepted_seeds(name, **opts):
    """Corpus seeds (raw presentation) accepted by the tree under test."""
    m = core.number_modules()[name]
    return [x for x in seeds(name) if core.out(m.validate, x, **opts)[0] == 'ok']


# --------------------------------------------------------------------------
# mutate and repair

SYMBOLS = '+*&@#'


def cls(ch):
    if ch in string.digits:
        return string.digits
    if ch in string.ascii_uppercase:
        return string.ascii_uppercase
    if ch in string.ascii_lowercase:
        return string.ascii_lowercase
    return None


_budget = {'calls': 0, 'limit': None}


class _BudgetExceeded(Exception):
    pass


def _ok(m, w, opts):
    if _budget['limit'] is not None:
        _budget['calls'] += 1
        if _budget['calls'] > _budget['limit']:
            raise _BudgetExceeded()
    try:
        return m.is_valid(w, **opts) is True
    except TypeError:
        try:
            m.validate(w, **opts)
            return True
        except Exception:  # noqa: B902
            return False
    except Exception:  # noqa: B902
        return False


def synth(name, v, muts, opts=None):
    """Apply same-class mutations to a valid number and repair it; None on failure."""
    opts = opts or {}
    m = core.number_modules()[name]
    w = list(v)
    idx = [i for i, c in enumerate(w) if cls(c)]
    if not idx:
        return None
    mutated = set()
    for i, c in muts:
        if i < len(w) and cls(w[i]) and (c in cls(w[i]) or c in SYMBOLS):
            w[i] = c
            mutated.add(i)
    w = ''.join(w)
    if _ok(m, w, opts):
        return w
    idx = [i for i in idx if cls(w[i])]
    for j in reversed(idx):
        if j in mutated:
            continue
        alpha = cls(w[j])
        if j == idx[-1] and w[j].isascii() and (w[j].isdigit() or w[j].isupper()):
            # a final check character may be of either class (ISO 7064 Mod 37,36 / Mod 11,10 'X'): same class first
            alpha = alpha + ''.join(c for c in string.digits + string.ascii_uppercase if c not in alpha)
        for c in alpha:
            y = w[:j] + c + w[j + 1:]
            if _ok(m, y, opts):
                return y
    if len(idx) >= 2:
        a, b = idx[-2], idx[-1]
        for ca in cls(w[a]):
            for cb in cls(w[b]):
                y = list(w)
                y[a] = ca
                y[b] = cb
                y = ''.join(y)
                if _ok(m, y, opts):
                    return y
    return None


def class_sweep(name, nbase=2, classes=(string.ascii_uppercase,), **opts):
    """Deterministic list of valid numbers covering every (position, character) of the given classes for a few base
    numbers (each substitution repaired by synth). Reaches per-letter branches such as 'CIF starting with N'."""
    out = []
    seen = set()
    for v in pool(name, **opts)[:nbase]:
        for i, c in enumerate(v):
            for al in classes:
                if c in al:
                    for c2 in al:
                        if c2 != c:
                            w = synth(name, v, [(i, c2)], opts)
                            if w and w not in seen:
                                seen.add(w)
                                out.append(w)
    return out


def symbol_sweep(name, nbase=1, **opts):
    """Valid numbers that carry one of the symbols + * & @ # at some position (for the few alphabets that admit them)."""
    m = core.number_modules()[name]
    out = []
    seen = set()
    for v in pool(name, **opts)[:nbase]:
        for c2 in SYMBOLS:
            # cheap pre-test: does the format ever admit this symbol at this position?
            for i in range(len(v)):
                if not cls(v[i]):
                    continue
                w = synth(name, v, [(i, c2)], opts)
                if w and c2 in w and w not in seen:
                    seen.add(w)
                    out.append(w)
    return out


SPECIAL_DATES = [('02', '29'), ('02', '30'), ('02', '28'), ('04', '31'), ('12', '31'), ('01', '01'), ('00', '00'), ('00', '01'),
                 ('13', '01'), ('06', '00'), ('02', '00')]


LEAP_DATES = (('00', '02', '29'), ('04', '02', '29'), ('96', '02', '29'), ('00', '02', '28'), ('99', '12', '31'))


def leap_numbers(name, slices, dates=LEAP_DATES, **opts):
    """Deterministic list: valid numbers whose date was set to 29 February of a year that is a leap year in one century
    but not in the neighbouring one (00), of an ordinary leap year (04, 96) and to 28 February (or to the given yy, mm, dd
    triples); check digits repaired."""
    ysl, msl, dsl = slices
    out = []
    for v in pool(name, **opts)[:3]:
        if not all(c.isdigit() for c in v[msl] + v[dsl] + v[ysl]):
            continue
        for yy, mm, dd in dates:
            w = list(v)
            w[msl], w[dsl] = list(mm), list(dd)
            w[ysl] = list((v[ysl][:-2] + yy)[-len(v[ysl]):])
            w = ''.join(w)
            if len(w) != len(v):
                continue
            fixed = [(i, w[i]) for sl in (ysl, msl, dsl) for i in range(*sl.indices(len(w)))]
            y = synth(name, w, fixed, opts)
            if y and y not in out:
                out.append(y)
    return out


def date_variants(name, slices, **opts):
    """Strategy: valid numbers of a date-carrying format whose date digits were overwritten with calendar corner cases
    (29/30 February, day 31 of short months, month/day 00, century/gender offsets added to month or day) and whose
    check digits were then repaired. slices = (yy slice, mm slice, dd slice) of the canonical form."""
    p = pool(name, **opts)
    m = core.number_modules()[name]
    ysl, msl, dsl = slices

    @st.composite
    def s(draw):
        v = draw(st.sampled_from(p))
        mm, dd = draw(st.one_of(st.sampled_from(SPECIAL_DATES), st.tuples(
            st.integers(1, 12).map(lambda x: '%02d' % x), st.integers(1, 31).map(lambda x: '%02d' % x))))
        yy = draw(st.sampled_from(['00', '01', '04', '96', '97', '99', '85', v[ysl][-2:]]))
        moff = draw(st.sampled_from([0, 0, 0, 20, 40, 50, 60, 70, 80]))
        doff = draw(st.sampled_from([0, 0, 0, 40]))
        if not (mm.isdigit() and dd.isdigit()):
            return v
        mm2 = '%02d' % ((int(mm) + moff) % 100)
        dd2 = '%02d' % ((int(dd) + doff) % 100)
        w = list(v)
        if not all(c.isdigit() for c in v[msl] + v[dsl]):
            return v
        w[msl] = list(mm2)
        w[dsl] = list(dd2)
        if v[ysl].isdigit():
            w[ysl] = list((v[ysl][:-2] + yy)[-len(v[ysl]):])
        w = ''.join(w)
        if len(w) != len(v):
            return v
        r = synth(name, w, [], opts)
        if r is None:
            stats['date_variant_unrepairable'] += 1
            return v
        o = core.out(m.validate, r, **opts)
        if o[0] == 'ok' and isinstance(o[1], str):
            stats['date_variant_ok'] += 1
            return o[1]
        return v
    return s()


_edge_cache = {}


_EDGE_LIMIT = {'mac': 8000}


def edge_pool(name, **opts):
    """Valid numbers with every character of the class at the first two and last two positions, for one base number per
    length occurring in the pool (leading zeros, rare first letters, every check character)."""
    key = (name, tuple(sorted(opts.items())), core.get_today())
    if key in _edge_cache:
        return _edge_cache[key]
    out, seen, lengths = [], set(), {}
    # deterministic cap on validator calls: only bitcoin (1.2M calls for 6 numbers) and mac (registry lookup per call) reach it
    _budget['calls'], _budget['limit'] = 0, _EDGE_LIMIT.get(name, 300000)
    try:
        _edge_fill(name, opts, out, seen, lengths)
    except _BudgetExceeded:
        stats['edge_pool_budget_exceeded'] += 1
    finally:
        _budget['limit'] = None
    _edge_cache[key] = out
    return out


def _edge_fill(name, opts, out, seen, lengths):
    for v in pool(name, **opts):
        # one base number per shape: length and which positions hold digits / upper / lower case letters
        lengths.setdefault((len(v), ''.join('d' if c.isdigit() else 'u' if c.isupper() else 'l' if c.islower() else 'o' for c in v)), v)
    m = core.number_modules()[name]
    # documented alternative final characters (es.cif: digit or letter check): each accepted one is a shape of its own
    for v in list(lengths.values())[:6]:
        for c in string.digits + string.ascii_uppercase:
            w = v[:-1] + c
            if c != v[-1] and _ok(m, w, opts):
                o = core.out(m.validate, w, **opts)
                if o[0] == 'ok' and isinstance(o[1], str) and o[1] not in seen:
                    seen.add(o[1])
                    out.append(o[1])
                    lengths.setdefault((len(o[1]), ''.join('d' if c.isdigit() else 'u' if c.isupper() else 'l' if c.islower() else 'o' for c in o[1])), o[1])
    # every accepted length near the lengths the examples show (up to three characters dropped or repeated at the front,
    # in the middle or before the last character), repaired: each new length is a shape of its own
    for v in list(lengths.values())[:3]:
        if len(v) > 30:
            continue
        for delta in (-3, -2, -1, 1, 2, 3):
            for pos in sorted(set([1, len(v) // 2, len(v) - 2])):
                if not 0 <= pos < len(v) or not cls(v[pos]):
                    continue
                if delta < 0:
                    if pos - delta > len(v) - 1 or len(v) + delta < 2:
                        continue
                    w0 = v[:pos] + v[pos - delta:]
                else:
                    w0 = v[:pos] + v[pos] * delta + v[pos:]
                w = synth(name, w0, [], opts)
                if w:
                    o = core.out(m.validate, w, **opts)
                    if o[0] == 'ok' and isinstance(o[1], str) and o[1] not in seen:
                        seen.add(o[1])
                        out.append(o[1])
                        stats['edge_length_variant'] += 1
                        lengths.setdefault((len(o[1]), ''.join('d' if c.isdigit() else 'u' if c.isupper() else 'l' if c.islower() else 'o' for c in o[1])), o[1])
    for v in list(lengths.values())[:6]:
        if len(v) > 40:
            continue
        for pos in sorted(set([0, 1, len(v) - 2, len(v) - 1])):
            if not 0 <= pos < len(v) or not cls(v[pos]):
                continue
            for c in cls(v[pos]):
                if c == v[pos]:
                    continue
                w = synth(name, v, [(pos, c)], opts)
                if w:
                    o = core.out(m.validate, w, **opts)
                    if o[0] == 'ok' and isinstance(o[1], str) and o[1] not in seen:
                        seen.add(o[1])
                        out.append(o[1])
        # a character of the other class at every position (alphanumeric positions that the corpus only shows with digits,
        # or only with letters)
        for pos in range(len(v)):
            c0 = v[pos]
            alts = 'AKZ' if c0.isdigit() else '059' if c0.isalpha() and c0.isascii() else ''
            for c in alts:
                w = synth(name, v[:pos] + c + v[pos + 1:], [], opts)
                if w and w[pos] == c:
                    o = core.out(m.validate, w, **opts)
                    if o[0] == 'ok' and isinstance(o[1], str) and o[1] not in seen:
                        seen.add(o[1])
                        out.append(o[1])
        # every two-digit prefix (bank / region / type code tables keyed on the first two digits)
        if len(v) >= 4 and v[0].isdigit() and v[1].isdigit() and len(lengths) <= 4:
            for a in string.digits:
                for b in string.digits:
                    if (a, b) == (v[0], v[1]):
                        continue
                    w = synth(name, a + b + v[2:], [], opts)
                    if w and w[:2] == a + b:
                        o = core.out(m.validate, w, **opts)
                        if o[0] == 'ok' and isinstance(o[1], str) and o[1] not in seen:
                            seen.add(o[1])
                            out.append(o[1])


_boundary_cache = {}


def boundary_pool(name, **opts):
    """Valid numbers whose digits sit on the boundaries of range tables: at every start position a digit followed by a run
    of 9s (upper bounds such as 099, 3999, 69999) or of 0s (lower bounds), check digits repaired."""
    key = (name, tuple(sorted(opts.items())), core.get_today())
    if key in _boundary_cache:
        return _boundary_cache[key]
    out, seen = [], set()
    _budget['calls'], _budget['limit'] = 0, _EDGE_LIMIT.get(name, 300000)
    try:
        _boundary_fill(name, opts, out, seen)
    except _BudgetExceeded:
        stats['boundary_pool_budget_exceeded'] += 1
    finally:
        _budget['limit'] = None
    _boundary_cache[key] = out
    return out


def _boundary_fill(name, opts, out, seen):
    m = core.number_modules()[name]
    bases = {}
    for v in pool(name, **opts):
        bases.setdefault(len(v), v)
    for v in list(bases.values())[:3]:
        if len(v) > 24:
            continue
        for k in range(0, min(len(v) - 2, 9)):
            for d in string.digits:
                for fill in '90':
                    for run in (2, 3, 4, 5, 6):
                        seg = d + fill * run
                        if k + len(seg) > len(v) - 1 or not v[k:k + len(seg)].isdigit():
                            continue
                        w = synth(name, v[:k] + seg + v[k + len(seg):], [], opts)
                        if w and w[k:k + len(seg)] == seg and w not in seen:
                            o = core.out(m.validate, w, **opts)
                            if o[0] == 'ok' and isinstance(o[1], str):
                                seen.add(w)
                                out.append(o[1])


_pair_cache = {}


def pair_pool(name, nbase=1, **opts):
    """Valid numbers in which every pair of adjacent digit positions of a base number takes all 100 values (check digits
    repaired): month / day / region / type fields wherever they sit, including offsets such as month+20, +40, +50."""
    key = (name, nbase, tuple(sorted(opts.items())), core.get_today())
    if key in _pair_cache:
        return _pair_cache[key]
    out, seen = [], set()
    shapes = {}
    for v in pool(name, **opts):
        shapes.setdefault((len(v), ''.join('d' if c.isdigit() else 'a' for c in v)), v)
    _budget['calls'], _budget['limit'] = 0, _EDGE_LIMIT.get(name, 300000)
    try:
        for v in list(shapes.values())[:nbase]:
            if len(v) > 24:
                continue
            for i in range(len(v) - 1):
                if not (v[i].isdigit() and v[i + 1].isdigit()):
                    continue
                for a in string.digits:
                    for b in string.digits:
                        if a + b == v[i:i + 2]:
                            continue
                        w = synth(name, v[:i] + a + b + v[i + 2:], [(i, a), (i + 1, b)], opts)
                        if w and w[i:i + 2] == a + b and w not in seen:
                            seen.add(w)
                            out.append(w)
    except _BudgetExceeded:
        stats['pair_pool_budget_exceeded'] += 1
    finally:
        _budget['limit'] = None
    _pair_cache[key] = out
    return out


_powers_cache = {}


def power_boundary_pool(name, **opts):
    """Valid all-digit numbers whose numeric value sits on a power of a radix a conversion may use (2, 16, 32, 36): m*b^k and
    its neighbours, as the whole number and as the payload before the final character; check digit repaired."""
    key = (name, tuple(sorted(opts.items())), core.get_today())
    if key in _powers_cache:
        return _powers_cache[key]
    out, seen = [], set()
    base = [v for v in pool(name, **opts) if v.isdigit() and 4 <= len(v) <= 12][:1]
    _budget['calls'], _budget['limit'] = 0, _EDGE_LIMIT.get(name, 300000)
    try:
        for v in base:
            L = len(v)
            ints = set()
            for b in (2, 16, 32, 36):
                k = 1
                while b ** k < 10 ** L:
                    for mlt in ([1] if b == 2 else range(1, b)):
                        for d in (-1, 0, 1):
                            ints.add(mlt * b ** k + d)
                    k += 1
            for n in sorted(ints):
                for w in (str(n).zfill(L), str(n).zfill(L - 1) + v[-1]):
                    if len(w) != L:
                        continue
                    y = synth(name, w, [(i, w[i]) for i in range(L - 1)], opts)
                    if y and y not in seen:
                        seen.add(y)
                        out.append(y)
    except _BudgetExceeded:
        stats['power_pool_budget_exceeded'] += 1
    finally:
        _budget['limit'] = None
    _powers_cache[key] = out
    return out


def valid_numbers(name, raw_fraction=4, **opts):
    """Strategy: canonical valid numbers of `name` (corpus + synthesised)."""
    p = pool(name, **opts)
    if not p:
        if name in corpus():
            raise core.HarnessError('none of the %d corpus numbers of %s is accepted by this tree' % (len(seeds(name)), name))
        raise core.NoSeeds('no valid example found for new module %s' % name)
    m = core.number_modules()[name]
    extra = extra_valid(name) if not opts else None
    edge = edge_pool(name, **opts)

    @st.composite
    def s(draw):
        if edge and draw(st.integers(0, 7)) == 0:
            stats['edge_pool'] += 1
            return draw(st.sampled_from(edge))
        if extra is not None and draw(st.integers(0, 3)) == 0:
            # registry-walking / constructive generator (reaches registry branches the corpus does not contain)
            o = core.out(m.validate, draw(extra))
            if o[0] == 'ok' and isinstance(o[1], str) and o[1]:
                stats['extra_valid_ok'] += 1
                return o[1]
            stats['extra_valid_rejected'] += 1
        v = draw(st.sampled_from(p))
        if draw(st.integers(0, raw_fraction - 1)) == 0:
            stats['pool_raw'] += 1
            return v
        idx = [i for i, c in enumerate(v) if cls(c)]
        if not idx:
            return v
        if draw(st.integers(0, 5)) == 0:
            # length classes the corpus does not contain: drop or duplicate one character, then repair
            i = draw(st.sampled_from(idx))
            v2 = v[:i] + v[i + 1:] if draw(st.booleans()) else v[:i] + v[i] + v[i:]
            w = synth(name, v2, [], opts)
            if w is not None:
                o = core.out(m.validate, w, **opts)
                if o[0] == 'ok' and isinstance(o[1], str) and o[1]:
                    stats['synth_length_variant'] += 1
                    return o[1]
        k = draw(st.integers(1, 3))
        muts = []
        for _ in range(k):
            i = draw(st.sampled_from(idx))
            if draw(st.integers(0, 11)) == 0:
                # symbols that a few alphabets admit in place of a letter or digit (ie.vat + *, cusip * @ #, mx.rfc &)
                muts.append((i, draw(st.sampled_from(SYMBOLS))))
            else:
                muts.append((i, draw(st.sampled_from(cls(v[i])))))
        w = synth(name, v, muts, opts)
        if w is None:
            stats['synth_fail'] += 1
            return v
        o = core.out(m.validate, w, **opts)
        if o[0] != 'ok' or not isinstance(o[1], str):
            stats['synth_fail'] += 1
            return v
        stats['synth_ok'] += 1
        return o[1]
    return s()


def extra_valid(name):
    """Constructive generators for registry-backed formats whose interesting inputs same-class mutation rarely reaches.
    Returns a strategy of candidate strings (validity is decided by the tree at use) or None."""
    if name == 'de.handelsregisternummer':
        m = core.number_modules()[name]
        courts = sorted(set(list(getattr(m, 'GERMAN_COURTS', ())) + list(getattr(m, '_courts', {}).values())))
        aliases = sorted(getattr(m, '_courts', {}).keys())

        @st.composite
        def s(draw):
            court = draw(st.one_of(st.sampled_from(courts), st.sampled_from(courts + aliases)))
            reg = draw(st.sampled_from(['HRA', 'HRB', 'PR', 'GnR', 'VR']))
            nr = str(draw(st.integers(1, 999999)))
            x = draw(st.sampled_from(['', '', ' B', ' FL']))
            if draw(st.booleans()):
                return '%s %s %s%s' % (court, reg, nr, x)
            return '%s %s%s, %s' % (reg, nr, x, court)
        return s()
    if name == 'gs1_128':
        # every registered application identifier with a value drawn from the independent value model (one or two elements)
        from vf.refs import gs1model
        ais = sorted(a for a in gs1model.ais() if gs1model.modelled(a))

        @st.composite
        def s(draw):
            items = []
            for _ in range(draw(st.integers(1, 2))):
                ai = draw(st.sampled_from(ais))
                enc, _val = draw(gs1model.value(ai, ''))
                items.append((ai, enc))
            parens = draw(st.booleans())
            fixed = [i for i in items if not gs1model.ais()[i[0]].get('fnc1')]
            var = [i for i in items if gs1model.ais()[i[0]].get('fnc1')]
            out = gs1model.build(fixed + var, '', parens)
            return out if out is not None else (('(%s)' if parens else '%s') % items[0][0]) + items[0][1]
        return s()
    if name == 'cfi':
        import os
        from vf.refs import numdbref
        roots, _ = numdbref.parse(open(os.path.join(core.REPO, 'stdnum', 'cfi.dat'), encoding='utf-8').read())

        @st.composite
        def s(draw):
            cat = draw(st.sampled_from([e for e in roots if e.ranges]))
            grp = draw(st.sampled_from([e for e in cat.children if e.ranges] or [cat]))
            code = cat.ranges[0][0] + grp.ranges[0][0]
            level = grp.children
            while len(code) < 6:
                vals = [e.ranges[0][0] for e in level if e.ranges and 'v' in e.props]
                code += draw(st.sampled_from(vals + ['X'])) if vals else 'X'
                nxt = [e for e in level if e.ranges and e.ranges[0][0] != e.ranges[0][1]]
                level = nxt[0].children if nxt else []
            return code
        return s()
    if name in ('iban', 'mac', 'imsi', 'isbn'):
        import os
        import re as _re
        from vf.refs import numdbref
        fn = {'iban': 'iban', 'mac': 'oui', 'imsi': 'imsi', 'isbn': 'isbn'}[name]
        roots, _ = numdbref.parse(open(os.path.join(core.REPO, 'stdnum', fn + '.dat'), encoding='utf-8').read())
        roots = [e for e in roots if e.ranges]

        def within(draw, lo, hi, alphabet):
            """a value of the range's length between lo and hi (inclusive)."""
            if lo == hi:
                return lo
            for _ in range(4):
                v = ''.join(draw(st.sampled_from(alphabet)) for _ in lo)
                if lo <= v <= hi:
                    return v
            return draw(st.sampled_from([lo, hi]))

        def walk(draw, alphabet, stop_prob):
            e = draw(st.sampled_from(roots))
            out = ''
            level = e
            while True:
                lo, hi = draw(st.sampled_from(level.ranges))
                out += within(draw, lo, hi, alphabet)
                kids = [k for k in level.children if k.ranges]
                if not kids or draw(st.integers(0, 9)) < stop_prob:
                    return out
                level = draw(st.sampled_from(kids))

        if name == 'iban':
            @st.composite
            def s(draw):
                e = draw(st.sampled_from(roots))
                cc = e.ranges[0][0]
                body = ''
                for n, k in _re.findall(r'([1-9][0-9]*)!([nac])', e.props.get('bban', '')):
                    al = {'n': string.digits, 'a': string.ascii_uppercase, 'c': string.digits + string.ascii_uppercase}[k]
                    body += draw(st.text(alphabet=al, min_size=int(n), max_size=int(n)))
                if cc == 'BE':
                    body = body[:10] + '%02d' % (int(body[:10]) % 97 or 97)
                elif cc == 'ME':
                    body = body[:16] + '%02d' % (98 - int(body[:16] + '00') % 97)
                elif cc == 'NO':
                    t = sum(w * int(d) for w, d in zip((5, 4, 3, 2, 7, 6, 5, 4, 3, 2), body[:10])) % 11
                    c = (11 - t) % 11
                    body = body[:10] + (str(c) if c < 10 else '0')
                elif cc == 'ES':
                    def cd(x):
                        c = sum(int(n) * (2 ** i % 11) for i, n in enumerate(x)) % 11
                        return str(c if c < 2 else 11 - c)
                    body = body[:8] + cd('00' + body[:8]) + cd(body[10:]) + body[10:]
                val = int(''.join(str(int(c, 36)) for c in body + cc + '00')) % 97
                return cc + '%02d' % (98 - val) + body
            return s()
        if name == 'mac':
            @st.composite
            def s(draw):
                p = walk(draw, '0123456789ABCDEF', 3)
                p += draw(st.text(alphabet='0123456789ABCDEF', min_size=max(0, 12 - len(p)), max_size=max(0, 12 - len(p))))
                p = p[:12]
                sep = draw(st.sampled_from([':', '-', ':']))
                return sep.join(p[i:i + 2] for i in range(0, 12, 2))
            return s()
        if name == 'imsi':
            @st.composite
            def s(draw):
                p = walk(draw, string.digits, 1)
                if len(p) == 3 and draw(st.booleans()):
                    p += draw(st.text(alphabet=string.digits, min_size=2, max_size=3))  # possibly unknown MNC
                n = draw(st.sampled_from([15, 15, 14]))
                p += draw(st.text(alphabet=string.digits, min_size=max(0, n - len(p)), max_size=max(0, n - len(p))))
                return p[:n]
            return s()
        if name == 'isbn':
            @st.composite
            def s(draw):
                p = walk(draw, string.digits, 0)
                p += draw(st.text(alphabet=string.digits, min_size=max(0, 12 - len(p)), max_size=max(0, 12 - len(p))))
                p = p[:12]
                t = sum((3 if i % 2 else 1) * int(c) for i, c in enumerate(p))
                return p + str((10 - t) % 10)
            return s()
    if name == 'isil':
        import os
        from vf.refs import numdbref
        roots, _ = numdbref.parse(open(os.path.join(core.REPO, 'stdnum', 'isil.dat'), encoding='utf-8').read())
        agencies = sorted(set(lo.rstrip('$') for e in roots for lo, hi in e.ranges))

        @st.composite
        def s(draw):
            a = draw(st.sampled_from(agencies))
            a2 = draw(st.sampled_from([a, a.lower(), a.capitalize()]))
            parts = draw(st.lists(st.one_of(st.sampled_from([a, a.lower(), a.upper()]),
                                            st.text(alphabet='ABCXYZabcxyz0123456789', min_size=1, max_size=4)), min_size=1, max_size=3))
            local = draw(st.sampled_from(['', '-', ':', '/'])).join(parts)[:11]
            return a2 + '-' + local
        return s()
    return None


# --------------------------------------------------------------------------
# presentations

ASCII_SEPS = " -./:,*_'()"
WS = ['\t', '\n', '\r', '\x0b', '\x0c', '\x1c', '\x1d', '\x1e', '\x1f', '\x85', ' ', ' ', '​']
LABELS = ['IMO', 'GRID:', 'GRID', 'ISBN', 'ISSN', 'ISMN', 'ISAN', 'ISNI', 'ISIL', 'EAN', 'VAT', 'BTW', 'TVA',
          'CHE', 'EL', 'GR', 'URN:ISAN:', 'RF', 'ISRC', 'LEI', 'CAS', 'EU', 'XI', 'GB']


def lookalikes():
    """The clean-up table of the tree (used only to *construct* presentations)."""
    from stdnum import util
    return dict(util._char_map)


_probe_cache = {}


def _norm_fn(m):
    return getattr(m, 'compact', None) or m.validate


def probe(name):
    """Which single characters / prefixes / case changes does the module treat as presentation?"""
    if name in _probe_cache:
        return _probe_cache[name]
    m = core.number_modules()[name]
    norm = _norm_fn(m)
    p = pool(name)[:4]
    info = {'neutral': [], 'prefixes': [], 'suffixes': [], 'lower': False, 'upper': False}
    if not p:
        _probe_cache[name] = info
        return info
    cands = list(ASCII_SEPS) + WS + [c for c in lookalikes() if ord(c) > 127]

    def same(f):
        try:
            for v in p:
                base = core.out(norm, v)
                if base[0] != 'ok':
                    return False
                if core.out(norm, f(v)) != base:
                    return False
                if core.out(m.validate, f(v)) != core.out(m.validate, v):
                    return False
            return True
        except Exception:  # noqa: B902
            return False
    for c in cands:
        if same(lambda v: v[:len(v) // 2] + c + v[len(v) // 2:]):
            info['neutral'].append(c)
    cc = name.split('.')[0].upper().rstrip('_') if '.' in name else None
    for pre in ([cc] if cc else []) + LABELS:
        if same(lambda v: pre + v):
            info['prefixes'].append(pre)
    # prefixes / suffixes the module's own examples show: an example whose alphanumeric characters are the canonical form plus
    # a few more at one end (a unit number '000', a label) names a candidate, which is then tried on other numbers
    learnt_pre, learnt_suf = [], []
    for x in seeds(name)[:300]:
        o = core.out(m.validate, x)
        if o[0] != 'ok' or not isinstance(o[1], str) or not o[1]:
            continue
        ax = ''.join(c for c in x if c.isalnum()).upper()
        av = ''.join(c for c in o[1] if c.isalnum()).upper()
        if ax != av and 0 < len(ax) - len(av) <= 6:
            if ax.startswith(av) and ax[len(av):] not in learnt_suf:
                learnt_suf.append(ax[len(av):])
            if ax.endswith(av) and ax[:-len(av)] not in learnt_pre:
                learnt_pre.append(ax[:-len(av)])
    def works_for_some(f):
        # a learnt affix need only fit one kind of number of the module (the callers check acceptance case by case)
        for v in pool(name)[:8]:
            base = core.out(m.validate, v)
            if base[0] == 'ok' and core.out(m.validate, f(v)) == base:
                return True
        return False
    for pre in learnt_pre[:4]:
        if pre not in info['prefixes'] and works_for_some(lambda v: pre + v):
            info['prefixes'].append(pre)
    for suf in ['MVA', 'TVA', 'MWST', 'IVA']:
        if same(lambda v: v + suf):
            info['suffixes'].append(suf)
    for suf in learnt_suf[:4]:
        if suf not in info['suffixes'] and works_for_some(lambda v: v + suf):
            info['suffixes'].append(suf)
    if any(c.isalpha() for v in p for c in v):
        info['lower'] = same(lambda v: v.lower())
        info['upper'] = same(lambda v: v.upper()) and any(v.upper() != v for v in p)
    _probe_cache[name] = info
    return info


def decorations(name, base):
    """Strategy: presentations of the string `base` built from the module's own neutral set.

    `base` is a strategy of strings. Returns strings. Soundness is established by
    the caller (C02: accepted by validate; C03: compact() equal)."""
    pr = probe(name)
    neutral = pr['neutral'] or [' ']
    # weight ASCII separators/whitespace higher than the ~190 look-alikes
    ascii_neutral = [c for c in neutral if ord(c) < 128] or neutral
    ws_neutral = [c for c in neutral if c in WS or c == ' '] or ascii_neutral
    char = st.one_of(st.sampled_from(ascii_neutral), st.sampled_from(ws_neutral), st.sampled_from(neutral))

    @st.composite
    def s(draw):
        v = draw(base)
        chars = list(v)
        # case
        if pr['lower']:
            mode = draw(st.integers(0, 3))
            if mode == 1:
                chars = [c.lower() for c in chars]
            elif mode == 2:
                flips = draw(st.lists(st.booleans(), min_size=len(chars), max_size=len(chars)))
                chars = [c.lower() if f else c for c, f in zip(chars, flips)]
        if pr.get('upper'):
            # formats whose canonical form is lower case (Bech32 addresses): upper-case everything or single characters
            mode = draw(st.integers(0, 3))
            if mode == 1:
                chars = [c.upper() for c in chars]
            elif mode == 2:
                flips = draw(st.lists(st.booleans(), min_size=len(chars), max_size=len(chars)))
                chars = [c.upper() if f else c for c, f in zip(chars, flips)]
        if not pr['lower'] and not pr.get('upper') and any(c.isalpha() for c in chars) and draw(st.integers(0, 7)) == 0:
            # what the probe learnt from the tree under test may be wrong exactly where a defect sits (lower case accepted
            # except for one character): now and then change case anyway; the caller's domain rule decides whether it counts
            mode = draw(st.integers(0, 2))
            if mode == 0:
                chars = [c.lower() for c in chars]
            elif mode == 1:
                chars = chars[:-1] + [chars[-1].lower()]
            else:
                i = draw(st.integers(0, len(chars) - 1))
                chars[i] = chars[i].swapcase()
        # separators that are part of the number itself (mac, casrn, ...) written in another style, each one independently
        seppos = [i for i, c in enumerate(chars) if c in '-:./ ']
        if seppos and draw(st.integers(0, 2)) == 0:
            for i in seppos:
                if draw(st.integers(0, 2)) == 0:
                    chars[i] = draw(st.sampled_from(['-', ':', '.', ' ', '/']))
        # insertions at drawn positions (every position reachable, incl. both ends)
        k = draw(st.integers(0, 4))
        if not pr['neutral']:
            # a format in which no character is neutral everywhere (free-text like numbers): widen the separators that are
            # already there instead of inserting new ones
            k = 0
            spots = [i for i, c in enumerate(chars) if c in ' ,-/']
            for _ in range(draw(st.integers(0, 2))):
                if spots:
                    i = draw(st.sampled_from(spots))
                    chars.insert(i, ' ')
                    spots = [j + 1 if j >= i else j for j in spots]
        for _ in range(k):
            pos = draw(st.integers(0, len(chars)))
            chars.insert(pos, draw(char))
        x = ''.join(chars)
        # prefix / suffix
        if pr['prefixes'] and draw(st.integers(0, 2)) == 0:
            pre = draw(st.sampled_from(pr['prefixes']))
            if pr['lower'] and draw(st.booleans()):
                pre = pre.lower()
            glue = draw(st.sampled_from(['', '', ' ', '-'] + ws_neutral[:3]))
            x = pre + glue + x
        if pr['suffixes'] and draw(st.integers(0, 3)) == 0:
            x = x + draw(st.sampled_from(['', ' '])) + draw(st.sampled_from(pr['suffixes']))
        # surrounding whitespace
        if draw(st.integers(0, 3)) == 0:
            x = draw(st.sampled_from([' ', '\t', '\n', '  ', '\r\n'])) + x
        if draw(st.integers(0, 3)) == 0:
            x = x + draw(st.sampled_from([' ', '\t', '\n', '  ', '\r\n']))
        return x
    return s()


# --------------------------------------------------------------------------
# hostile values (returned as specs, see core.enc/dec)

def _foreign_digits():
    out = []
    for cp in range(0x80, 0x1FBFF):
        ch = chr(cp)
        cat = unicodedata.category(ch)
        if cat in ('Nd', 'No', 'Nl'):
            out.append(ch)
    return out


FOREIGN_DIGITS = _foreign_digits()
ODD_LETTERS = list('ßŉǰıİſKǅÅÄÖÜÑñéΑΒΕΚΜΟΡΤΧАВЕКМОРСТХＡＢＺ𝐀𝟘²³¹①⑨Ⅷↁ٠١٢٣४५६') + ['́', '‍', '﻿', '\x00', '\x7f']
CONTROLS = ['\n', '\r', '\t', '\x0b', '\x0c', '\x00', '\x1c', '\x1d', '\x1e', '\x1f', '\x85', ' ', ' ']


def hostile_char():
    return st.one_of(
        st.sampled_from(CONTROLS),
        st.sampled_from(FOREIGN_DIGITS),
        st.sampled_from(ODD_LETTERS),
        st.sampled_from(list(ASCII_SEPS) + list('0123456789') + list('XKAZaz')),
        st.characters(),
    )


def edits(base):
    """Strategy: `base` strings with 1..3 hostile edits (insert/replace/delete/duplicate/swap)."""
    @st.composite
    def s(draw):
        x = list(draw(base))
        for _ in range(draw(st.integers(1, 3))):
            op = draw(st.integers(0, 4))
            # bias positions to the ends and right after a 2-char prefix
            n = len(x)
            pos = draw(st.one_of(st.integers(0, n), st.sampled_from([0, 1, 2, max(n - 2, 0), max(n - 1, 0), n])))
            pos = min(pos, n)
            if op == 0 or n == 0:
                x.insert(pos, draw(hostile_char()))
            elif op == 1:
                x[min(pos, n - 1)] = draw(hostile_char())
            elif op == 2:
                del x[min(pos, n - 1)]
            elif op == 3:
                x.insert(pos, x[min(pos, n - 1)])
            else:
                i = min(pos, n - 1)
                if i + 1 < n:
                    x[i], x[i + 1] = x[i + 1], x[i]
        return ''.join(x)
    return s()


def newline_edits(base):
    """Strategy: a newline (or another line-break control) put where `$`-anchored patterns and strip() treat it specially:
    before the last / last-but-one character, at the very end, at the start, right after a two-letter prefix."""
    @st.composite
    def s(draw):
        v = draw(base)
        n = len(v)
        pos = draw(st.sampled_from([max(n - 1, 0), max(n - 1, 0), max(n - 2, 0), n, 0, min(2, n), draw(st.integers(0, n))]))
        c = draw(st.sampled_from(['\n', '\n', '\n', '\r', '\x0b', '\x0c', '\x1c', '\x85', '\u2028', '\n\n']))
        if draw(st.booleans()) or pos >= n:
            return v[:pos] + c + v[pos:]
        return v[:pos] + c + v[pos + 1:]
    return s()


SUSPICIOUS = ['\n', '\r', '\t', '\x00', ' ', '_', '&', 'Ñ', 'ñ', 'Ä', 'ö', 'ß', 'ı', 'İ', 'ſ', 'K', '٣', '५', '²', '①', 'Ⅷ', '０', 'Ａ',
              'а', 'Α', 'é', '́', '‍', '﻿', '*', '+', '#', '@', '/', '\\', '%', "'", '"', '<', 'X', 'x', '0', '9', 'A', 'a', 'Z', '-', '.']


_literal_cache = {}


def literals(name):
    """Short string constants of the module's source (prefixes, labels, magic values it compares against): the classic
    fuzzing dictionary, harvested from the tree under test with ast (docstrings excluded)."""
    if name in _literal_cache:
        return _literal_cache[name]
    import ast
    import inspect
    out = []
    try:
        tree = ast.parse(inspect.getsource(core.number_modules()[name]))
    except Exception:  # noqa: B902
        tree = None
    if tree is not None:
        doc = set()
        for node in ast.walk(tree):
            if isinstance(node, (ast.Module, ast.FunctionDef, ast.ClassDef)) and node.body and isinstance(node.body[0], ast.Expr) \
                    and isinstance(getattr(node.body[0], 'value', None), ast.Constant):
                doc.add(id(node.body[0].value))
        for node in ast.walk(tree):
            if isinstance(node, ast.Constant) and isinstance(node.value, str) and id(node) not in doc:
                t = node.value
                if 1 <= len(t) <= 8 and t.isalnum() and t.isascii() and t not in out:
                    out.append(t)
    _literal_cache[name] = out[:30]
    return _literal_cache[name]


def literal_probes(name):
    """Texts that start with one of the module's own literals, continued with digits to a range of lengths, one hostile
    character at each position behind the literal: reaches a branch guarded by a magic prefix and a length."""
    digits = '0264359008172645'
    for tok in literals(name):
        if len(tok) < 2:
            continue
        for k in range(4, 13):
            base = tok + digits[:k]
            yield base
            for pos in range(len(tok), len(base)):
                for c in ('A', ' ', '\u0663', '-', '\n'):
                    yield base[:pos] + c + base[pos + 1:]


def long_text(maxlen):
    alphabet = st.sampled_from(['0', '1', '9', '0123456789', '0123456789ABCDEFGHIJKLMNOPQRSTUVWXYZ', 'A', ' 1', '1-'])

    @st.composite
    def s(draw):
        a = draw(alphabet)
        n = draw(st.one_of(st.integers(0, 40), st.integers(4290, 4400), st.integers(0, maxlen)))
        if len(a) == 1:
            body = a * n
        else:
            unit = draw(st.text(alphabet=a, min_size=1, max_size=40))
            body = (unit * (n // len(unit) + 1))[:n]
        pre = draw(st.sampled_from(['', '', '', 'NL', 'BE', 'RF', 'GB']))
        return pre + body
    return s()


def nonstrings(seed_strs):
    """Strategy of specs for non-str values; seed_strs: strategy of str to derive look-alike objects from."""
    sv = seed_strs
    digits_only = sv.map(lambda s: ''.join(c for c in s if c in string.digits) or '0')
    return st.one_of(
        st.sampled_from([core.enc(x) for x in (None, True, False, 0, 1, -1, 18, 1.5, float('nan'), float('inf'),
                                                [], {}, set(), (), b'')] + [{'t': 'object'}]),
        digits_only.map(lambda s: core.enc(int(s))),
        st.integers(-10 ** 20, 10 ** 20).map(core.enc),
        st.floats(allow_nan=True).map(core.enc),
        sv.map(lambda s: core.enc(s.encode('utf-8', 'replace'))),
        sv.map(lambda s: core.enc(bytearray(s.encode('utf-8', 'replace')))),
        sv.map(lambda s: core.enc(list(s))),
        sv.map(lambda s: core.enc(tuple(s))),
        sv.map(lambda s: {'t': 'strlike', 'v': core.enc(s)}),
        sv.map(lambda s: {'t': 'strsub', 'v': core.enc(s)}),
        sv.map(lambda s: core.enc([s])),
        sv.map(lambda s: core.enc({s: s})),
        st.lists(st.one_of(st.integers(0, 9), st.text(max_size=2), st.none()), max_size=12).map(core.enc),
    )


# --------------------------------------------------------------------------
# option table (every keyword of every validate/is_valid signature)

DE_REGIONS = ['Baden-Württemberg', 'Bayern', 'Berlin', 'Brandenburg', 'Bremen', 'Hamburg', 'Hessen',
              'Mecklenburg-Vorpommern', 'Niedersachsen', 'Nordrhein-Westfalen', 'Rheinland-Pfalz', 'Saarland',
              'Sachsen', 'Sachsen-Anhalt', 'Schleswig-Holstein', 'Thüringen']
COMPANY_FORMS = ['e.K.', 'e.V.', 'Verein', 'eG', 'OHG', 'KG', 'KGaA', 'Partnerschaft', 'PartG', 'PartG mbB',
                 'VVaG', 'AG', 'GmbH', 'UG', 'SE', 'gGmbH', 'nonsense', '']
DAMM_TABLE2 = ((0, 2, 3, 4, 5, 6, 7, 8, 9, 1), (2, 0, 4, 1, 7, 9, 5, 3, 8, 6), (3, 7, 0, 5, 2, 8, 1, 6, 4, 9),
               (4, 1, 8, 0, 6, 3, 9, 2, 7, 5), (5, 6, 2, 9, 0, 7, 4, 1, 3, 8), (6, 9, 7, 3, 1, 0, 8, 5, 2, 4),
               (7, 5, 1, 8, 4, 2, 0, 9, 6, 3), (8, 4, 6, 2, 9, 5, 3, 0, 1, 7), (9, 8, 5, 7, 3, 1, 6, 4, 0, 2),
               (1, 3, 9, 6, 8, 4, 2, 7, 5, 0))
AT_OFFICES = ['Bruck Eisenstadt Oberwart', 'Wien 1/23', 'Salzburg-Stadt', 'Innsbruck', 'Graz-Stadt',
              'Klagenfurt', 'Linz', 'nowhere', 'Ünknown']


def option_strategy(name):
    """Strategy of kwargs dicts (JSON-able specs) for validate() of module `name`."""
    t = {
        'at.tin': st.one_of(st.just({}), st.builds(lambda o: {'office': o}, st.sampled_from(AT_OFFICES))),
        'damm': st.one_of(st.just({}), st.just({'table': core.enc(DAMM_TABLE2)}), st.just({'table': None})),
        'de.handelsregisternummer': st.one_of(st.just({}), st.builds(lambda o: {'company_form': o}, st.sampled_from(COMPANY_FORMS))),
        'de.stnr': st.one_of(st.just({}), st.builds(lambda o: {'region': o}, st.sampled_from(
            DE_REGIONS + [r.lower() for r in DE_REGIONS[:4]] + ['Baden Württemberg', 'Atlantis', '', 'Thuringen']))),
        'fi.hetu': st.builds(lambda b: {'allow_temporary': b}, st.booleans()),
        'gs1_128': st.builds(lambda s: {'separator': s}, st.sampled_from(['', '\x1d', '|', '~', '^', '[FNC1]'])),
        'iban': st.builds(lambda b: {'check_country': b}, st.booleans()),
        'isan': st.builds(lambda a, b: {'strip_check_digits': a, 'add_check_digits': b}, st.booleans(), st.booleans()),
        'isbn': st.builds(lambda b: {'convert': b}, st.booleans()),
        'iso7064.mod_37_2': st.one_of(st.just({}), st.builds(lambda a: {'alphabet': a}, st.sampled_from(
            ['0123456789X', '0123456789ABCDEFGHIJKLMNOPQRSTUVWXYZ*', '0123456789ABCDEF*']))),
        'iso7064.mod_37_36': st.one_of(st.just({}), st.builds(lambda a: {'alphabet': a}, st.sampled_from(
            ['0123456789', '0123456789ABCDEFGHIJKLMNOPQRSTUVWXYZ', 'ABCDEFGHIJKLMNOPQRSTUVWXYZ']))),
        'kr.rrn': st.builds(lambda b: {'allow_future': b}, st.booleans()),
        'lt.asmens': st.builds(lambda b: {'validate_birth_date': b}, st.booleans()),
        'luhn': st.one_of(st.just({}), st.builds(lambda a: {'alphabet': a}, st.sampled_from(
            ['0123456789', '0123456789abcdef', '0123456789ABCDEFGHIJKLMNOPQRSTUVWXYZ', '01', 'abcdef']))),
        'mac': st.builds(lambda b: {'validate_manufacturer': b}, st.sampled_from([None, True, False])),
        'meid': st.builds(lambda b: {'strip_check_digit': b}, st.booleans()),
        'mx.curp': st.builds(lambda b: {'validate_check_digits': b}, st.booleans()),
        'mx.rfc': st.builds(lambda b: {'validate_check_digits': b}, st.booleans()),
    }
    if name in t:
        return st.one_of(st.just({}), t[name])
    return st.just({})


def option_lists(name):
    """Finite list of kwargs dicts (specs) for validate() of module `name`: every documented option value."""
    t = {
        'at.tin': [{'office': o} for o in AT_OFFICES],
        'damm': [{'table': core.enc(DAMM_TABLE2)}, {'table': None}],
        'de.handelsregisternummer': [{'company_form': c} for c in COMPANY_FORMS],
        'de.stnr': [{'region': r} for r in DE_REGIONS + ['Atlantis', '']],
        'fi.hetu': [{'allow_temporary': b} for b in (True, False)],
        'gs1_128': [{'separator': x} for x in ('', '\x1d', '|')],
        'iban': [{'check_country': b} for b in (True, False)],
        'isan': [{'strip_check_digits': a, 'add_check_digits': b} for a in (True, False) for b in (True, False)],
        'isbn': [{'convert': b} for b in (True, False)],
        'iso7064.mod_37_2': [{'alphabet': a} for a in ('0123456789X', '0123456789ABCDEFGHIJKLMNOPQRSTUVWXYZ*')],
        'iso7064.mod_37_36': [{'alphabet': a} for a in ('0123456789', '0123456789ABCDEFGHIJKLMNOPQRSTUVWXYZ')],
        'kr.rrn': [{'allow_future': b} for b in (True, False)],
        'lt.asmens': [{'validate_birth_date': b} for b in (True, False)],
        'luhn': [{'alphabet': a} for a in ('0123456789', '0123456789abcdef', 'abcdef')],
        'mac': [{'validate_manufacturer': b} for b in (None, True, False)],
        'meid': [{'strip_check_digit': b} for b in (True, False)],
        'mx.curp': [{'validate_check_digits': b} for b in (True, False)],
        'mx.rfc': [{'validate_check_digits': b} for b in (True, False)],
    }
    return [{}] + t.get(name, [])


def dec_opts(opts):
    return dict((k, core.dec(v)) for k, v in opts.items())


CLOCK_MODULES = ['be.nn', 'be.bis', 'be.ssn', 'be.eid', 'dk.cpr', 'no.fodselsnummer', 'kr.rrn', 'ro.onrc',
                 'se.personnummer', 'sg.uen', 'za.idnr', 'ro.cf']


def clock_strategy(name):
    """Frozen-clock date (ISO string) or None for the default."""
    if name in CLOCK_MODULES or name in ('eu.vat', 'vatin'):
        return st.one_of(st.none(), st.dates(
            min_value=core._real_datetime.date(1990, 1, 1),
            max_value=core._real_datetime.date(2100, 12, 31)).map(lambda d: d.isoformat()))
    return st.none()
