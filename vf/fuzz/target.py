#!/opt/veriftools/pyvenv/bin/python
"""Coverage-guided generator for C01 / C02 (atheris on libFuzzer): bytes -> (module, text) -> oracle inside the target.

Started by vf.core.fuzz_campaign as N shard processes (modules split round-robin; this interpreter is the tooling venv,
which has atheris; stdnum is imported from the tree under test and instrumented). byte 0 picks the module of the shard, the
rest is the text (UTF-8, undecodable bytes replaced). Oracles:
  c01  validate() returns str or raises ValidationError; is_valid() returns exactly the matching bool and never raises
  c02  an accepted input's result is accepted again and returned unchanged
Anomalies are bucketed by (module, kind, exception type, innermost stdnum frame) and written to <outdir> as JSON cases; the
target keeps going, so one campaign enumerates root causes. The harness replays every case through the check's own
property function, which alone decides about violations.
usage: target.py <c01|c02> <outdir> <shard> <nshards> [libFuzzer flags / corpus dirs ...]
"""
import json
import os
import sys
import traceback

REPO = os.environ.get('VERIF_REPO', '/repo')
sys.path.insert(0, REPO)

import atheris  # noqa: E402

which, outdir, shard, nshards = sys.argv[1], sys.argv[2], int(sys.argv[3]), int(sys.argv[4])
argv = [sys.argv[0]] + sys.argv[5:]

with atheris.instrument_imports(include=['stdnum']):
    import stdnum.exceptions
    from stdnum.util import get_number_modules
    MODS = sorted(get_number_modules(), key=lambda m: m.__name__)
if not os.path.realpath(stdnum.__file__).startswith(os.path.realpath(REPO) + os.sep):
    sys.stderr.write('stdnum imported from %s, not from %s\n' % (stdnum.__file__, REPO))
    sys.exit(2)
MODS = [m for i, m in enumerate(MODS) if i % nshards == shard]
VE = stdnum.exceptions.ValidationError
seen = set()


def frame_of(tb):
    fr = None
    for f in traceback.extract_tb(tb):
        if '/stdnum/' in f.filename:
            fr = '%s:%s' % (f.filename.split('/stdnum/')[-1], f.name)
    return fr or 'outside'


def report(mod, kind, text, exc=None):
    key = (mod.__name__, kind, type(exc).__name__, frame_of(exc.__traceback__) if exc is not None else '')
    if key in seen or len(seen) > 200:
        return
    seen.add(key)
    rec = {'mod': mod.__name__[7:], 'kind': kind, 'x': text, 'exc': key[2], 'frame': key[3]}
    with open(os.path.join(outdir, 'case-%d-%d.json' % (shard, len(seen))), 'w') as f:
        json.dump(rec, f, ensure_ascii=True)


def one(data):
    if not data:
        return
    m = MODS[data[0] % len(MODS)]
    text = data[1:].decode('utf-8', 'replace')
    ok = None
    r = None
    try:
        r = m.validate(text)
        ok = True
        if not isinstance(r, str):
            report(m, 'validate-returned-' + type(r).__name__, text)
    except VE:
        ok = False
    except Exception as e:  # noqa: B902
        report(m, 'validate-raised', text, e)
    if which == 'c01':
        try:
            b = m.is_valid(text)
            if b is not True and b is not False:
                report(m, 'is_valid-returned-' + type(b).__name__, text)
            elif ok is not None and b is not ok:
                report(m, 'is_valid-disagrees', text)
        except Exception as e:  # noqa: B902
            report(m, 'is_valid-raised', text, e)
    elif ok and isinstance(r, str):
        try:
            if m.validate(r) != r:
                report(m, 'not-fixed-point-changed', text)
        except Exception as e:  # noqa: B902
            report(m, 'not-fixed-point-rejected', text, e)
        if r != r.strip():
            report(m, 'whitespace-kept', text)


atheris.Setup(argv, one)
atheris.Fuzz()
