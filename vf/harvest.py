"""One-off: harvest candidate numbers from docstrings and doctests into corpus/corpus.json.

Run from /verif with the pristine tree: /venv/bin/python -m vf.harvest
The result is committed data; at run time validity is re-decided by the tree under test.
"""
import json
import os
import re
import sys

sys.path.insert(0, os.path.dirname(os.path.dirname(os.path.abspath(__file__))))
from vf import core  # noqa: E402


def candidates(text):
    out = set()
    for m in re.finditer(r"'([^'\n]{2,80})'", text):
        out.add(m.group(1))
    for m in re.finditer(r'"([^"\n]{2,80})"', text):
        out.add(m.group(1))
    for line in text.splitlines():
        s = line.strip()
        if s.startswith('...'):
            s = s[3:].strip()
        if 2 <= len(s) <= 80 and not s.startswith('>>>'):
            out.add(s)
    return out


def main():
    mods = core.number_modules()
    corpus = {}
    for name, m in mods.items():
        texts = [open(m.__file__, encoding='utf-8').read()]
        base = 'test_' + name.replace('.', '_').replace('in__', 'in_').replace('is__', 'is_')
        for t in (base + '.doctest',):
            p = os.path.join(core.REPO, 'tests', t)
            if os.path.exists(p):
                texts.append(open(p, encoding='utf-8').read())
        valid, invalid = set(), set()
        for t in texts:
            for c in candidates(t):
                try:
                    if m.is_valid(c) is True:
                        valid.add(c)
                    elif re.search(r'[0-9]', c) and not re.search(r'[=(){}\[\]]|>>>|import', c) and len(c) <= 50:
                        invalid.add(c)
                except Exception:  # noqa: B902
                    pass
        corpus[name] = {'valid': sorted(valid), 'invalid': sorted(invalid)[:60]}
    missing = [k for k, v in corpus.items() if not v['valid']]
    print(len(corpus), 'modules; without a valid seed:', missing)
    print('total valid', sum(len(v['valid']) for v in corpus.values()))
    with open(os.path.join(core.VERIF, 'corpus', 'corpus.json'), 'w', encoding='utf-8') as f:
        json.dump(corpus, f, indent=0, ensure_ascii=False, sort_keys=True)


if __name__ == '__main__':
    main()
