"""Common machinery for the python-stdnum property checks (see DESIGN.md section 2).

Everything here is harness code: runner context, tree selection, frozen clock,
value (de)serialisation for replay files, Hypothesis driver with
collect-then-shrink bucketing, known findings, evidence writer.
"""
import binascii
import collections
import datetime as _real_datetime
import decimal
import hashlib
import importlib
import json
import os
import re
import sys
import time
import traceback
import types
import warnings
import zlib

_RealDate = _real_datetime.date
_RealDateTime = _real_datetime.datetime

VERIF = os.path.dirname(os.path.dirname(os.path.abspath(__file__)))
REPO = os.path.abspath(os.environ.get('VERIF_REPO', '/repo'))
NPROC = int(os.environ.get('VERIF_NPROC', '16'))

warnings.simplefilter('ignore')


class HarnessError(Exception):
    """Something is wrong with the harness or its environment: exit 2."""


class NoSeeds(HarnessError):
    """A module for which no valid number is known (new module without harvestable examples): skipped and reported."""


# --------------------------------------------------------------------------
# tree under test

_tree_ready = False


def use_tree():
    """Put the tree under test first on sys.path and import stdnum from it."""
    global _tree_ready
    if _tree_ready:
        return
    if REPO in sys.path:
        sys.path.remove(REPO)
    sys.path.insert(0, REPO)
    for k in list(sys.modules):
        if k == 'stdnum' or k.startswith('stdnum.'):
            raise HarnessError('stdnum imported before use_tree()')
    import stdnum
    here = os.path.realpath(os.path.dirname(stdnum.__file__))
    if not here.startswith(os.path.realpath(REPO) + os.sep):
        raise HarnessError('stdnum imported from %s, not from %s' % (here, REPO))
    _tree_ready = True


_modules = None


def number_modules():
    """Return {short name: module} for every discoverable number module."""
    global _modules
    if _modules is None:
        use_tree()
        from stdnum.util import get_number_modules
        mods = collections.OrderedDict()
        for m in get_number_modules():
            mods[m.__name__[len('stdnum.'):]] = m
        _modules = mods
        install_clock()
    return _modules


def mod(name):
    """Import stdnum.<name> from the tree under test."""
    use_tree()
    m = importlib.import_module('stdnum.' + name)
    _patch_clock_in(m)
    return m


def ValidationError():
    use_tree()
    from stdnum.exceptions import ValidationError as VE
    return VE


# --------------------------------------------------------------------------
# frozen clock (DESIGN 2.5): every stdnum module that binds the name
# `datetime` (module or class) or `date` gets a shim whose today()/now()
# return the harness-chosen date. No repository hook is needed.

_clock = {'today': _RealDate(2024, 5, 17)}


class _DateMeta(type):
    """isinstance(x, shim.date) must keep accepting real dates created outside the library."""

    def __instancecheck__(cls, inst):
        return isinstance(inst, _RealDate)


class _DateTimeMeta(type):
    def __instancecheck__(cls, inst):
        return isinstance(inst, _RealDateTime)


class FrozenDate(_RealDate, metaclass=_DateMeta):
    @classmethod
    def today(cls):
        t = _clock['today']
        return cls(t.year, t.month, t.day)


class FrozenDateTime(_RealDateTime, metaclass=_DateTimeMeta):
    @classmethod
    def now(cls, tz=None):
        t = _clock['today']
        return cls(t.year, t.month, t.day, 12, 0, 0)

    @classmethod
    def today(cls):
        return cls.now()

    @classmethod
    def utcnow(cls):
        return cls.now()


_shim = types.ModuleType('datetime')
_shim.__dict__.update({k: v for k, v in vars(_real_datetime).items() if not k.startswith('__')})
_shim.date = FrozenDate
_shim.datetime = FrozenDateTime


def _patch_clock_in(m):
    d = vars(m)
    if _real_datetime.date is FrozenDate:
        return  # the datetime module itself carries the frozen classes (C13 worker)
    if d.get('datetime') is _real_datetime:
        d['datetime'] = _shim
    elif d.get('datetime') is _RealDateTime:
        d['datetime'] = FrozenDateTime
    if d.get('date') is _RealDate:
        d['date'] = FrozenDate


def install_clock():
    for k, m in list(sys.modules.items()):
        if (k == 'stdnum' or k.startswith('stdnum.')) and m is not None:
            _patch_clock_in(m)


def set_today(d):
    """Set the frozen date (datetime.date or ISO string or None=default)."""
    if d is None:
        d = _RealDate(2024, 5, 17)
    if isinstance(d, str):
        d = _RealDate.fromisoformat(d)
    _clock['today'] = _RealDate(d.year, d.month, d.day)


def get_today():
    return _clock['today']


# --------------------------------------------------------------------------
# value specs: JSON-serialisable descriptions of arbitrary Python values, so
# that every generated case can be written to a replay file.

class StrLike(object):
    """A well-behaved user object that spells a number."""

    def __init__(self, s):
        self.s = s

    def __str__(self):
        return self.s

    def __iter__(self):
        return iter(self.s)

    def __len__(self):
        return len(self.s)

    def __repr__(self):
        return 'StrLike(%r)' % (self.s,)


class StrSub(str):
    """A str subclass (is a str)."""


def enc(v):
    """Encode a Python value as a JSON-able spec."""
    if v is None or isinstance(v, bool):
        return v
    if type(v) is str:
        try:
            v.encode('utf-8')
            return v
        except UnicodeEncodeError:
            return {'t': 'ustr', 'v': [ord(c) for c in v]}
    if isinstance(v, StrSub):
        return {'t': 'strsub', 'v': enc(str(v))}
    if type(v) is int:
        return {'t': 'int', 'v': str(v)} if abs(v) > 2 ** 53 else v
    if type(v) is float:
        return {'t': 'float', 'v': repr(v)}
    if isinstance(v, bytes):
        return {'t': 'bytes', 'v': binascii.hexlify(v).decode()}
    if isinstance(v, bytearray):
        return {'t': 'bytearray', 'v': binascii.hexlify(bytes(v)).decode()}
    if isinstance(v, list):
        return {'t': 'list', 'v': [enc(x) for x in v]}
    if isinstance(v, tuple):
        return {'t': 'tuple', 'v': [enc(x) for x in v]}
    if isinstance(v, (set, frozenset)):
        return {'t': 'set', 'v': sorted((enc(x) for x in v), key=repr)}
    if isinstance(v, dict):
        return {'t': 'dict', 'v': [[enc(k), enc(x)] for k, x in v.items()]}
    if isinstance(v, _RealDateTime):
        return {'t': 'datetime', 'v': v.isoformat()}
    if isinstance(v, _RealDate):
        return {'t': 'date', 'v': v.isoformat()}
    if isinstance(v, decimal.Decimal):
        return {'t': 'decimal', 'v': str(v)}
    if isinstance(v, StrLike):
        return {'t': 'strlike', 'v': enc(v.s)}
    if type(v) is object:
        return {'t': 'object'}
    return {'t': 'repr', 'v': repr(v)}


def dec(s):
    """Decode a spec produced by enc() back into a Python value."""
    if not isinstance(s, dict):
        return s
    t, v = s.get('t'), s.get('v')
    if t == 'ustr':
        return ''.join(chr(c) for c in v)
    if t == 'strsub':
        return StrSub(dec(v))
    if t == 'int':
        return int(v)
    if t == 'float':
        return float(v)
    if t == 'bytes':
        return binascii.unhexlify(v)
    if t == 'bytearray':
        return bytearray(binascii.unhexlify(v))
    if t == 'list':
        return [dec(x) for x in v]
    if t == 'tuple':
        return tuple(dec(x) for x in v)
    if t == 'set':
        return set(dec(x) for x in v)
    if t == 'dict':
        return dict((dec(k), dec(x)) for k, x in v)
    if t == 'datetime':
        return _RealDateTime.fromisoformat(v)
    if t == 'date':
        return _RealDate.fromisoformat(v)
    if t == 'decimal':
        return decimal.Decimal(v)
    if t == 'strlike':
        return StrLike(dec(v))
    if t == 'object':
        return object()
    raise HarnessError('cannot decode spec %r' % (s,))


def canon(v):
    """Canonical, type-tagged, hashable-as-JSON form of a library result."""
    return json.dumps(enc(v), sort_keys=True, ensure_ascii=True)


# --------------------------------------------------------------------------
# outcomes

def frame_of(exc):
    """Innermost frame inside the tree under test: 'relative/file.py:function'."""
    tb = traceback.extract_tb(exc.__traceback__)
    root = os.path.realpath(REPO) + os.sep
    inner = None
    for f in tb:
        fn = os.path.realpath(f.filename)
        if fn.startswith(root):
            inner = '%s:%s' % (fn[len(root):], f.name)
    return inner or 'outside-tree'


def out(fn, *args, **kwargs):
    """Return ('ok', value) | ('verr', class name) | ('EXC', type name, frame)."""
    VE = ValidationError()
    try:
        return ('ok', fn(*args, **kwargs))
    except VE as e:
        return ('verr', type(e).__name__)
    except RecursionError as e:  # keep the harness alive
        return ('EXC', 'RecursionError', frame_of(e))
    except Exception as e:  # noqa: B902
        return ('EXC', type(e).__name__, frame_of(e))


def h64(*parts):
    return int.from_bytes(hashlib.blake2b(
        '\x1f'.join(str(p) for p in parts).encode('utf-8', 'surrogatepass'),
        digest_size=8).digest(), 'big')


def subseed(*parts):
    return zlib.crc32(':'.join(str(p) for p in parts).encode()) & 0x7fffffff


# --------------------------------------------------------------------------
# shard results

class Result(object):
    """What one shard (or the whole run) explored."""

    MAXS = 12

    def __init__(self):
        self.evals = 0
        self.nontrivial = set()
        self.nontrivial_extra = 0  # counted-by-construction distinct cases (exhaustive sweeps)
        self.samples = []
        self.hist = collections.Counter()
        self.viol = {}  # bucket -> record
        self.viol_count = collections.Counter()
        self.notes = {}
        self.errors = []

    def nt(self, *key):
        self.nontrivial.add(h64(*key))

    def sample(self, s):
        if len(self.samples) < self.MAXS:
            self.samples.append(s)

    def violation(self, bucket, sub, case, detail):
        """Record a violation; keep the smallest witness per bucket."""
        self.viol_count[bucket] += 1
        rec = {'bucket': bucket, 'sub': sub, 'case': case, 'detail': detail}
        old = self.viol.get(bucket)
        if old is None or len(json.dumps(case, default=str)) < len(json.dumps(old['case'], default=str)):
            self.viol[bucket] = rec

    def merge(self, other):
        self.evals += other.evals
        self.nontrivial |= other.nontrivial
        self.nontrivial_extra += other.nontrivial_extra
        for s in other.samples:
            # keep samples diverse: round-robin-ish
            if len(self.samples) < 40:
                self.samples.append(s)
        self.hist.update(other.hist)
        for b, rec in other.viol.items():
            old = self.viol.get(b)
            if old is None or len(json.dumps(rec['case'], default=str)) < len(json.dumps(old['case'], default=str)):
                self.viol[b] = rec
        self.viol_count.update(other.viol_count)
        for k, v in other.notes.items():
            if isinstance(v, (int, float)) and isinstance(self.notes.get(k, 0), (int, float)):
                self.notes[k] = self.notes.get(k, 0) + v
            elif isinstance(v, dict):
                d = self.notes.setdefault(k, {})
                for kk, vv in v.items():
                    if isinstance(vv, (int, float)):
                        d[kk] = d.get(kk, 0) + vv
                    else:
                        d[kk] = vv
            elif isinstance(v, list):
                self.notes.setdefault(k, []).extend(v)
            else:
                self.notes[k] = v
        self.errors.extend(other.errors)


# --------------------------------------------------------------------------
# Hypothesis driver: collect all buckets, then shrink each unknown one.

def hyp():
    import hypothesis
    return hypothesis


def drive(prop, strategy, n, seed_parts, res, shrink_skip=(), shrink=True, max_shrink_buckets=4):
    """Run prop(case, res) over n generated cases; prop records violations in res.

    prop must be a pure function of `case` (a JSON-able value). Afterwards every
    bucket not in `shrink_skip` is reduced by a second Hypothesis run with the same
    seed that fails only for that bucket; the shrunk case replaces the witness.
    """
    from hypothesis import HealthCheck, Phase, given, seed, settings
    sd = subseed(*seed_parts)
    before = set(res.viol)
    common = dict(database=None, deadline=None, derandomize=False, report_multiple_bugs=False,
                  suppress_health_check=list(HealthCheck))

    @seed(sd)
    @settings(max_examples=n, phases=[Phase.generate], **common)
    @given(strategy)
    def collect(case):
        prop(case, res)

    try:
        collect()
    except Exception as e:  # noqa: B902
        name = type(e).__name__
        if name in ('Unsatisfiable', 'FailedHealthCheck', 'InvalidArgument'):
            raise HarnessError('generator problem in %s: %s: %s' % (seed_parts, name, e))
        raise
    if not shrink:
        return
    todo = [b for b in res.viol if b not in shrink_skip and b not in before and not res.viol[b].get('shrunk')]
    for bucket in todo[:max_shrink_buckets]:
        last = {}

        class Hit(Exception):
            pass

        @seed(sd)
        @settings(max_examples=n, phases=[Phase.generate, Phase.shrink], **common)
        @given(strategy)
        def find(case):
            tmp = Result()
            prop(case, tmp)
            if bucket in tmp.viol:
                last['rec'] = tmp.viol[bucket]
                raise Hit()

        try:
            find()
        except Hit:
            pass
        except Exception:  # noqa: B902
            pass
        if 'rec' in last:
            rec = last['rec']
            rec['shrunk'] = True
            res.viol[bucket] = rec


# --------------------------------------------------------------------------
# known findings (DESIGN 2.7). File format, one entry per line:
#   KNOWN-FINDING: property=<id> <what fails> ## {"bucket":..., "sub":..., "case":...}
#   fixed: property=<id> <commit> <what failed> ## {"bucket":..., "sub":..., "case":...}

KNOWN_FILE = os.path.join(VERIF, 'known_findings.txt')


def load_known(pid):
    openk, fixed = [], []
    if not os.path.exists(KNOWN_FILE):
        return openk, fixed
    for line in open(KNOWN_FILE, encoding='utf-8'):
        line = line.rstrip('\n')
        if not line.strip() or line.startswith('#'):
            continue
        head, _, tail = line.rpartition(' ## ')
        if not head:
            raise HarnessError('bad known-findings line: %r' % line[:80])
        meta = json.loads(tail)
        if ('property=%s ' % pid) not in head + ' ':
            continue
        meta['text'] = head
        if head.startswith('KNOWN-FINDING:'):
            openk.append(meta)
        elif head.startswith('fixed:'):
            fixed.append(meta)
        else:
            raise HarnessError('bad known-findings line: %r' % line[:80])
    return openk, fixed


# --------------------------------------------------------------------------
# run context + reporting

class Ctx(object):
    def __init__(self, pid, tier, seed):
        self.pid = pid
        self.tier = tier
        self.seed = seed
        self.quick = tier == 'quick'
        self.t0 = time.time()
        self.open_known, self.fixed_known = load_known(pid)
        self.known_buckets = set(k['bucket'] for k in self.open_known)

    def q(self, quick, thorough):
        return quick if self.quick else thorough


def pmap(fn, args, nproc=None):
    """Map fn over args in forked worker processes; results in order."""
    import multiprocessing as mp
    nproc = min(nproc or NPROC, max(1, len(args)))
    if nproc == 1:
        return [fn(a) for a in args]
    ctx = mp.get_context('fork')
    with ctx.Pool(nproc) as p:
        return p.map(fn, args, chunksize=1)


def _wrap_shard(fa):
    fn, a = fa
    try:
        return fn(a)
    except NoSeeds as e:
        r = Result()
        r.notes['shards_skipped_no_valid_seed'] = [str(e)]
        return r
    except HarnessError as e:
        r = Result()
        r.errors.append('HarnessError in shard %r: %s' % (a if not isinstance(a, dict) else a.get('shard'), e))
        return r
    except Exception as e:  # noqa: B902
        r = Result()
        r.errors.append('shard %r crashed: %s' % (
            a if not isinstance(a, dict) else a.get('shard'), ''.join(traceback.format_exception(type(e), e, e.__traceback__))[-1500:]))
        return r


def run_shards(fn, shard_args):
    """Run shard function over shard args in parallel and merge the Results."""
    total = Result()
    for r in pmap(_wrap_shard, [(fn, a) for a in shard_args]):
        total.merge(r)
    return total


def finish(ctx, res, level, rule, assumptions, subs, extra=None, min_nontrivial=2):
    """Replay known findings, print lines, write replays + evidence, return exit code.

    subs: {sub name: fn(case, res)} used for replaying witnesses.
    """
    pid = ctx.pid
    lines = []
    rc = 0
    # 1. known findings: replay stored witnesses so the lines do not depend on luck
    known_status = {}
    for k in ctx.open_known:
        tmp = Result()
        try:
            subs[k['sub']](k['case'], tmp)
        except Exception as e:  # noqa: B902
            res.errors.append('known-finding witness for %s crashed: %r' % (k['bucket'], e))
        reproduced = k['bucket'] in tmp.viol
        hit = res.viol_count.get(k['bucket'], 0)
        known_status[k['bucket']] = {'witness_reproduces': reproduced, 'hits_in_search': hit}
        if reproduced or hit:
            lines.append('%s' % k['text'])
    # 2. fixed findings: regression tier; they suppress nothing
    for k in ctx.fixed_known:
        tmp = Result()
        try:
            subs[k['sub']](k['case'], tmp)
        except Exception as e:  # noqa: B902
            res.errors.append('regression witness for %s crashed: %r' % (k['bucket'], e))
        res.evals += 1
        for b, rec in tmp.viol.items():
            res.violation(b, rec['sub'], rec['case'], rec['detail'])
    # 3. violations
    nviol = 0
    rdir = os.path.join(VERIF, 'replays', pid)
    for bucket in sorted(res.viol):
        if bucket in ctx.known_buckets:
            continue
        rec = res.viol[bucket]
        nviol += 1
        os.makedirs(rdir, exist_ok=True)
        path = os.path.join(rdir, '%016x.json' % h64(bucket))
        with open(path, 'w', encoding='utf-8') as f:
            json.dump({'property': pid, 'bucket': bucket, 'sub': rec['sub'], 'case': rec['case'],
                       'detail': rec['detail'], 'seed': ctx.seed, 'tier': ctx.tier,
                       'count_in_run': res.viol_count.get(bucket, 1)}, f, indent=1, default=str, ensure_ascii=True)
        if nviol <= 40:
            lines.append('VIOLATION property=%s replay=%s  [%s] %s' % (
                pid, path, bucket, json.dumps(rec['detail'], default=str, ensure_ascii=True)[:300]))
        rc = 1
    if nviol > 40:
        lines.append('(%d further violation buckets not printed; see %s)' % (nviol - 40, rdir))
    # 4. harness errors
    nt = len(res.nontrivial) + res.nontrivial_extra
    if res.errors:
        for e in res.errors[:10]:
            lines.append('HARNESS-ERROR: %s' % e)
        if rc == 0:
            rc = 2
    if nt < min_nontrivial and rc == 0:
        lines.append('HARNESS-ERROR: only %d non-trivial cases' % nt)
        rc = 2
    # 5. evidence
    cov = {
        'evaluations': int(res.evals),
        'distinct_nontrivial': int(nt),
        'rule': rule,
        'samples': res.samples[:24],
        'histogram': dict(sorted(res.hist.items(), key=lambda kv: str(kv[0]))),
        'known_findings': known_status,
        'known_excluded_hits': int(sum(res.viol_count.get(b, 0) for b in ctx.known_buckets)),
        'violation_buckets': sorted(b for b in res.viol if b not in ctx.known_buckets)[:50],
        'notes': res.notes,
    }
    if extra:
        cov.update(extra)
    ev = {
        'property_id': pid, 'tier': ctx.tier, 'seed': int(ctx.seed), 'level': level,
        'coverage': cov, 'assumptions': assumptions,
        'wall_s': round(time.time() - ctx.t0, 2), 'violations': nviol,
        'tree': REPO, 'exit_code': rc,
    }
    os.makedirs(os.path.join(VERIF, 'evidence'), exist_ok=True)
    with open(os.path.join(VERIF, 'evidence', pid + '.json'), 'w', encoding='utf-8') as f:
        json.dump(ev, f, indent=1, default=str, ensure_ascii=True)
        f.write('\n')
    for ln in lines:
        print(ln)
    print('%s %s tier=%s seed=%s evaluations=%d nontrivial=%d violations=%d known=%d wall=%.1fs' % (
        pid, {0: 'OK', 1: 'FAIL', 2: 'HARNESS-ERROR'}[rc], ctx.tier, ctx.seed, res.evals, nt, nviol,
        len([1 for v in known_status.values() if v['witness_reproduces'] or v['hits_in_search']]),
        time.time() - ctx.t0))
    sys.stdout.flush()
    return rc


def replay(ctx, path, subs):
    """Re-execute a replay file without Hypothesis. Exit 1 + VIOLATION iff it still fails."""
    rec = json.load(open(path, encoding='utf-8'))
    tmp = Result()
    subs[rec['sub']](rec['case'], tmp)
    if rec['bucket'] in tmp.viol:
        print('VIOLATION property=%s replay=%s  [%s] %s' % (
            ctx.pid, path, rec['bucket'], json.dumps(tmp.viol[rec['bucket']]['detail'], default=str)[:300]))
        return 1
    if tmp.viol:
        for b in tmp.viol:
            print('VIOLATION property=%s replay=%s  [%s] (different bucket than recorded)' % (ctx.pid, path, b))
        return 1
    print('%s replay: no violation' % ctx.pid)
    return 0


# ---------------------------------------------------------------------------------------------------------------------
# coverage-guided campaigns (atheris / libFuzzer) as an extra generator; the check's own property function stays the oracle

VT_PYTHON = '/opt/veriftools/pyvenv/bin/python'
FUZZ_DICT = ['\n', '\r', '\t', '\x00', '\x0b', '\x1c', '\x85', '\xa0', ' ', '　', '٠', '٩', '۵', '१',
             '０', '９', 'Ａ', 'Ｚ', '²', '¹', '①', '⁵', 'ı', 'İ', 'ß', 'ſ',
             'K', 'ﬁ', 'Α', 'А', '‐', '–', '−', '­', '​', '‍', '﻿', '‮',
             '\U0001d7ce', '\U0001d7d7', '\U00010107', '௰', '፩', '〇', '一', '½']


def fuzz_campaign(ctx, which, seconds, seeds_for, replay_case, res, max_len=64):
    """Run `seconds` of atheris per shard on NPROC shards; every reported case is replayed through replay_case(case_dict)
    (which calls the check's property function). seeds_for(module name) -> a few valid numbers for the starting corpus of
    the odd shards (even shards start from an empty corpus). Returns a notes dict; never raises a violation itself."""
    import glob
    import shutil
    import subprocess
    import tempfile
    info = {'tool': 'atheris (libFuzzer), %d shards x %ds, max_len=%d' % (NPROC, seconds, max_len)}
    target = os.path.join(os.path.dirname(os.path.abspath(__file__)), 'fuzz', 'target.py')
    probe = subprocess.run([VT_PYTHON, '-c', 'import atheris'], capture_output=True) if os.path.exists(VT_PYTHON) else None
    if probe is None or probe.returncode != 0:
        info['skipped'] = 'atheris not available in %s' % VT_PYTHON
        res.notes['coverage_guided'] = info
        return info
    names = sorted(number_modules())
    base = tempfile.mkdtemp(prefix='vf-fuzz-', dir='/dev/shm' if os.path.isdir('/dev/shm') else None)
    try:
        out = os.path.join(base, 'out')
        os.makedirs(out)
        with open(os.path.join(base, 'dict'), 'w', encoding='ascii') as f:
            for i, t in enumerate(FUZZ_DICT):
                f.write('k%d="%s"\n' % (i, ''.join('\\x%02x' % b for b in t.encode('utf-8'))))
        procs = []
        for s in range(NPROC):
            cdir = os.path.join(base, 'corpus%d' % s)
            os.makedirs(cdir)
            mine = [n for i, n in enumerate(names) if i % NPROC == s]
            if s % 2:
                for j, n in enumerate(mine):
                    for k, v in enumerate(seeds_for(n)[:3]):
                        with open(os.path.join(cdir, 's%d_%d' % (j, k)), 'wb') as f:
                            f.write(bytes([j]) + v.encode('utf-8'))
            env = dict(os.environ, VERIF_REPO=REPO, PYTHONHASHSEED='0')
            env.pop('PYTHONPATH', None)
            log = open(os.path.join(base, 'log%d' % s), 'wb')
            procs.append((subprocess.Popen(
                [VT_PYTHON, target, which, out, str(s), str(NPROC), '-max_total_time=%d' % seconds, '-max_len=%d' % max_len,
                 '-seed=%d' % (subseed(ctx.seed, 'fuzz', which, s) % (2 ** 31 - 1) + 1), '-dict=' + os.path.join(base, 'dict'),
                 '-verbosity=0', '-print_final_stats=1', cdir], stdout=log, stderr=subprocess.STDOUT, env=env, cwd=base), log))
        execs = 0
        failed = []
        for s, (p, log) in enumerate(procs):
            try:
                p.wait(timeout=seconds * 3 + 120)
            except subprocess.TimeoutExpired:
                p.kill()
                failed.append('shard %d: timeout' % s)
            log.close()
            text = open(os.path.join(base, 'log%d' % s), 'rb').read().decode('utf-8', 'replace')
            m = re.search(r'stat::number_of_executed_units:\s*(\d+)', text) or re.search(r'Done (\d+) runs', text)
            if m:
                execs += int(m.group(1))
            elif p.returncode != 0:
                failed.append('shard %d: exit %s: %s' % (s, p.returncode, text[-300:]))
        cases = []
        for fn in sorted(glob.glob(os.path.join(out, 'case-*.json'))):
            cases.append(json.load(open(fn, encoding='utf-8')))
        info.update({'executions': execs, 'cases_reported_by_target': len(cases), 'failed_shards': failed,
                     'starting_corpus': 'even shards empty, odd shards 3 valid numbers per module',
                     'pinning': 'libFuzzer -seed only approximately pins a campaign; a reported case is the reproducible unit'})
        if failed and not execs:
            res.errors.append('coverage-guided campaign did not run: %s' % failed[:2])
        reproduced = added = 0
        for c in cases:
            before, nb = sum(res.viol_count.values()), len(res.viol)
            replay_case(c)
            reproduced += sum(res.viol_count.values()) > before
            added += len(res.viol) > nb
        info['cases_confirmed_by_property_function'] = reproduced
        info['cases_adding_a_bucket_the_generated_search_had_not_found'] = added
        res.hist['coverage-guided-executions'] += execs
    finally:
        shutil.rmtree(base, ignore_errors=True)
    res.notes['coverage_guided'] = info
    return info
