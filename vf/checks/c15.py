"""C15 - accepted numbers are spelled in ASCII."""
import unicodedata

from hypothesis import strategies as st

from vf import core, gen

LEVEL = 'exploration'
RULE = ('per identifier module: valid numbers (canonical and corpus presentations) x every position x foreign characters: digits of '
        'other scripts (Nd/No/Nl outside the clean-up table) with the same numeric value as the digit replaced (plus different-value '
        'samples), homoglyph / accented / full-width / case-expanding letters at letter positions, combining marks appended; oracle: '
        'whatever validate() returns is ASCII (exempt modules: only their documented national letters); non-trivial = a substitution '
        'that is accepted or that reaches past the first format gate cannot be told apart without instrumentation, so every '
        '(module, number, position, character) substitution is counted; distinct over those')
ASSUME = ['the 8 generic algorithm modules are outside the property', 'de.handelsregisternummer, mx.rfc, es.referenciacatastral may return their documented national letters',
          'non-ValidationError exceptions are C01 matters and only counted here']

GENERIC = ['luhn', 'verhoeff', 'damm', 'iso7064.mod_11_10', 'iso7064.mod_11_2', 'iso7064.mod_37_2', 'iso7064.mod_37_36', 'iso7064.mod_97_10']
EXEMPT = {'de.handelsregisternummer': set('äöüÄÖÜß'), 'mx.rfc': set('Ññ'), 'es.referenciacatastral': set('Ññ')}


def _digit_table():
    table = gen.lookalikes()
    by_value = {}
    for cp in range(0x80, 0x110000):
        ch = chr(cp)
        if ch in table:
            continue
        cat = unicodedata.category(ch)
        if cat in ('Nd', 'No', 'Nl'):
            v = unicodedata.digit(ch, None)
            if v is None:
                v = unicodedata.numeric(ch, None)
                v = int(v) if v is not None and v == int(v) and 0 <= v <= 9 else None
            by_value.setdefault(v, []).append(ch)
    return by_value


DIGITS = _digit_table()
LETTER_ODD = {}
for base in 'ABCDEFGHIJKLMNOPQRSTUVWXYZ':
    alts = []
    for cp in list(range(0xC0, 0x250)) + list(range(0x370, 0x530)) + list(range(0xFF21, 0xFF5B)) + list(range(0x1D400, 0x1D434)):
        ch = chr(cp)
        d = unicodedata.normalize('NFKD', ch)
        if d and d[0].upper() == base and ch.upper() != base:
            alts.append(ch)
    LETTER_ODD[base] = alts
HOMO = {'A': 'ΑА', 'B': 'ΒВ', 'C': 'СϹ', 'E': 'ΕЕ', 'H': 'ΗН', 'I': 'ΙІıİ', 'J': 'Ј', 'K': 'ΚКK', 'M': 'ΜМ', 'N': 'Ν', 'O': 'ΟО',
        'P': 'ΡР', 'S': 'Ѕſ', 'T': 'ΤТ', 'X': 'ΧХ', 'Y': 'ΥҮ', 'Z': 'Ζ'}
ALLHOMO = sorted(set(''.join(HOMO.values())))
COMBINING = ['́', '̈', '⃝', '‍', '︎']


def prop(case, res):
    name = case['mod']
    m = core.number_modules()[name]
    x = core.dec(case['x'])
    res.evals += 1
    res.nt(name, x)
    opts = gen.dec_opts(case.get('opts') or {})
    o = core.out(m.validate, x, **opts)
    if o[0] == 'EXC':
        res.hist['skipped:non-ValidationError (C01)'] += 1
        return
    if o[0] != 'ok' or not isinstance(o[1], str):
        res.hist['rejected'] += 1
        return
    v = o[1]
    bad = [c for c in v if ord(c) > 127 and c not in EXEMPT.get(name, ())]
    if not bad:
        res.hist['accepted-and-translated-or-ascii'] += 1
        return
    res.hist['accepted-non-ascii'] += 1
    # bucket: module + relative slice of the canonical form + character category
    cat = unicodedata.category(bad[0])
    kind = 'digit' if cat[0] == 'N' else 'letter' if cat[0] == 'L' else 'other'
    optkey = ''
    if opts:
        d = core.out(m.validate, x)
        if not (d[0] == 'ok' and isinstance(d[1], str) and not d[1].isascii()):
            optkey = '|opts=' + ','.join(sorted(opts))  # only the option lets it through
    res.violation('%s|non-ascii-returned|%s%s' % (name, kind, optkey), 'c15', case,
                  {'input': x, 'returned': v, 'char': 'U+%04X %s' % (ord(bad[0]), unicodedata.name(bad[0], '?'))})


SUBS = {'c15': prop}
CASEFOLD = {'K': ['\u212a'], 'S': ['\u017f'], 'I': ['\u0131', '\u0130'], 'A': ['\u212b'], 'F': ['\ufb01', '\ufb00'], 'M': ['\u2133']}


def shard(a):
    """Enumerate substitutions for the module (deterministic in the seed)."""
    import random
    res = core.Result()
    name = a['mod']
    rnd = random.Random(core.subseed(a['seed'], 'C15', name))
    m = core.number_modules()[name]
    nums = list(gen.pool(name)[:a['nnum']])
    raw = [x for x in gen.accepted_seeds(name)[:a['nnum']] if x not in nums]
    if len(gen.pool(name)) > a['nnum']:
        nums += rnd.sample(gen.pool(name)[a['nnum']:], min(a['nnum'], len(gen.pool(name)) - a['nnum']))
    edge = [e for e in gen.edge_pool(name) if any(c.isalpha() for c in e[:2] + e[-2:])]
    nums += rnd.sample(edge, min(len(edge), a['nnum'] * 3))
    optlists = [o for o in gen.option_lists(name) if o and 'alphabet' not in o and 'table' not in o]
    hom_budget = [a['nnum'] * 2]
    for x in nums + raw[:a['nnum'] // 2]:
        for i, c in enumerate(x):
            subs = []
            if c.isdigit() and c.isascii():
                same = DIGITS.get(int(c), [])
                nd = [d for d in same if unicodedata.category(d) == 'Nd']
                rest = [d for d in same if unicodedata.category(d) != 'Nd']
                # decimal digits of other scripts (int() and \d accept them) and other numeric characters separately
                subs += rnd.sample(nd, min(len(nd), a['scripts'])) + rnd.sample(rest, min(len(rest), 2))
                other = DIGITS.get((int(c) + 1) % 10, [])
                if other:
                    subs.append(rnd.choice(other))
                if i == len(x) - 1 or rnd.random() < .1:
                    subs.append(c + rnd.choice(COMBINING))
            elif c.isalpha() and c.isascii():
                u = c.upper()
                alts = LETTER_ODD.get(u, [])
                subs += list(HOMO.get(u, '')) + rnd.sample(alts, min(len(alts), a['scripts']))
                subs += rnd.sample(['ß', 'ŉ', 'ǰ', 'ǅ', 'ﬁ'], 1)
                if c.islower():
                    pass
                else:
                    subs = subs + [s.lower() for s in subs[:2]]
            if c.isalpha() and c.isascii() and hom_budget[0] > 0:
                # any homoglyph (not only those of the letter that is there) with the last character re-fitted: a look-alike
                # that slipped into the module's own alphabet is only accepted together with the check character that fits it
                hom_budget[0] -= 1
                cl = gen.cls(x[-1]) if i != len(x) - 1 else None
                for h in ALLHOMO:
                    y = x[:i] + h + x[i + 1:]
                    prop({'mod': name, 'x': core.enc(y)}, res)
                    if cl:
                        for c2 in cl:
                            if c2 != x[-1]:
                                prop({'mod': name, 'x': core.enc(y[:-1] + c2)}, res)
            for s in subs:
                prop({'mod': name, 'x': core.enc(x[:i] + s + x[i + 1:])}, res)
                if optlists and (i < 2 or i >= len(x) - 2 or rnd.random() < .2):
                    # non-default option values may switch a gate off (e.g. validate_check_digits=False)
                    prop({'mod': name, 'x': core.enc(x[:i] + s + x[i + 1:]), 'opts': rnd.choice(optlists)}, res)
    # letters whose case mappings cross into ASCII (Kelvin sign -> k, long s -> S, dotless / dotted i) at every position of
    # every corpus number that holds the ASCII letter: a prefix looked up through lower() / upper() lets them through
    for x in gen.pool(name)[:a['nfold']]:
        for i, c in enumerate(x):
            for s in CASEFOLD.get(c.upper(), ()):
                prop({'mod': name, 'x': core.enc(x[:i] + s + x[i + 1:])}, res)
    # Hypothesis part: hostile edits (anything accepted is in the domain)
    strat = st.fixed_dictionaries({'mod': st.just(name), 'x': gen.edits(st.one_of(gen.valid_numbers(name), st.sampled_from(gen.seeds(name)))).map(core.enc)})
    core.drive(prop, strat, a['n'], (a['seed'], 'C15', name), res, shrink_skip=a['known'])
    if len(res.samples) < 2 and nums:
        res.sample({'mod': name, 'number': nums[0], 'substitutions': 'every position x foreign digits/letters'})
    return res


def run(ctx):
    mods = core.number_modules()
    names = [n for n in mods if n not in GENERIC]
    args = [{'shard': n, 'mod': n, 'seed': ctx.seed, 'nnum': ctx.q(4, 40), 'scripts': ctx.q(4, 80), 'n': ctx.q(60, 2000),
             'nfold': ctx.q(300, 3000), 'known': ctx.known_buckets} for n in names]
    res = core.run_shards(shard, args)
    res.notes['modules'] = len(names)
    res.notes['foreign_digit_code_points'] = sum(len(v) for v in DIGITS.values())
    return core.finish(ctx, res, LEVEL, RULE, ASSUME, SUBS)
