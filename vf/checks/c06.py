"""C06 - generic checksum algorithms give their promised guarantees at any length."""
import itertools

from hypothesis import strategies as st

from vf import core, gen

LEVEL = 'exploration'
RULE = ('per (algorithm, alphabet): all payload strings up to length L (exhaustive) plus Hypothesis-generated long payloads; '
        'for each payload p and c=calc(p): valid(p+c), no other check character validates (single-character schemes), every '
        'same-kind single substitution at every position is invalid, adjacent swaps per the statement (Luhn: undetected iff '
        '{first,last} symbol). non-trivial = a (algorithm, alphabet, fold state, position class, a, b) substitution/swap '
        'transition; distinct over those tuples')
ASSUME = ['"every length" is covered by exhaustive short strings + long random strings + fold-state transition coverage, not by induction',
          '"same kind" = digit/digit, upper/upper, lower/lower as in the statement']

A40 = '0123456789ABCDEFGHIJKLMNOPQRSTUVWXYZabcd'
A36 = '0123456789ABCDEFGHIJKLMNOPQRSTUVWXYZ'


def configs():
    c = {}
    for n in range(2, 41, 2):
        c['luhn/%d' % n] = dict(mod='luhn', kw={'alphabet': A40[:n]}, pay=A40[:n], chk=A40[:n], swaps='luhn', direction='R', nchk=1)
    c['luhn/hex'] = dict(mod='luhn', kw={'alphabet': '0123456789abcdef'}, pay='0123456789abcdef', chk='0123456789abcdef', swaps='luhn', direction='R', nchk=1)
    for nm, al in (('abcdef', 'abcdef'), ('1-0', '1234567890'), ('A-Z', 'ABCDEFGHIJKLMNOPQRSTUVWXYZ'), ('base32', 'ABCDEFGHIJKLMNOPQRSTUVWXYZ234567')):
        c['luhn/' + nm] = dict(mod='luhn', kw={'alphabet': al}, pay=al, chk=al, swaps='luhn', direction='R', nchk=1)
    c['luhn/default'] = dict(mod='luhn', kw={}, pay='0123456789', chk='0123456789', swaps='luhn', direction='R', nchk=1)
    c['verhoeff'] = dict(mod='verhoeff', kw={}, pay='0123456789', chk='0123456789', swaps='all', direction='R', nchk=1)
    c['damm'] = dict(mod='damm', kw={}, pay='0123456789', chk='0123456789', swaps='all', direction='L', nchk=1)
    c['damm/table2'] = dict(mod='damm', kw={'table': gen.DAMM_TABLE2}, pay='0123456789', chk='0123456789', swaps='all', direction='L', nchk=1)
    c['mod_11_2'] = dict(mod='iso7064.mod_11_2', kw={}, pay='0123456789', chk='0123456789X', swaps='all', direction='L', nchk=1)
    c['mod_37_2'] = dict(mod='iso7064.mod_37_2', kw={}, pay=A36, chk=A36 + '*', swaps='all', direction='L', nchk=1)
    c['mod_37_2/11'] = dict(mod='iso7064.mod_37_2', kw={'alphabet': '0123456789X'}, pay='0123456789', chk='0123456789X', swaps='all', direction='L', nchk=1)
    c['mod_11_10'] = dict(mod='iso7064.mod_11_10', kw={}, pay='0123456789', chk='0123456789', swaps=None, direction='L', nchk=1)
    c['mod_37_36'] = dict(mod='iso7064.mod_37_36', kw={}, pay=A36, chk=A36, swaps=None, direction='L', nchk=1)
    c['mod_37_36/10'] = dict(mod='iso7064.mod_37_36', kw={'alphabet': '0123456789'}, pay='0123456789', chk='0123456789', swaps=None, direction='L', nchk=1)
    c['mod_97_10'] = dict(mod='iso7064.mod_97_10', kw={}, pay='0123456789', chk='0123456789', swaps='all', direction='L', nchk=2)
    c['mod_97_10/alnum'] = dict(mod='iso7064.mod_97_10', kw={}, pay=A36, chk='0123456789', swaps=None, direction='L', nchk=2)
    return c


CFG = configs()


def kind(ch):
    return 'd' if ch.isdigit() else 'u' if ch.isupper() else 'l' if ch.islower() else 'o'


def prop(case, res):
    cfg = CFG[case['alg']]
    m = core.mod(cfg['mod'])
    kw = cfg['kw']
    p = case['p']
    alg = case['alg']
    calc = getattr(m, 'calc_check_digit', None) or m.calc_check_digits
    o = core.out(calc, p, **kw)
    res.evals += 1
    if o[0] != 'ok' or not isinstance(o[1], str) or len(o[1]) != cfg['nchk']:
        res.violation('%s|calc-fails' % alg, 'alg', case, {'calc': [str(t) for t in o]})
        return
    c = o[1]
    s = p + c

    def valid(x):
        res.evals += 1
        r = core.out(m.is_valid, x, **kw)
        return r == ('ok', True)
    if not valid(s):
        res.violation('%s|generated-check-invalid' % alg, 'alg', case, {'string': s})
        return
    if core.out(m.validate, s, **kw) != ('ok', s):
        res.violation('%s|validate-does-not-return-string' % alg, 'alg', case, {'string': s})
    # (2) uniqueness of the check character(s)
    if cfg['nchk'] == 1:
        for c2 in cfg['chk']:
            if c2 != c and valid(p + c2):
                res.violation('%s|second-check-character-accepted' % alg, 'alg', case, {'string': s, 'also': p + c2})
    else:
        for c2 in ('%02d' % i for i in range(100)):
            if c2 != c and valid(p + c2) and int(c2) not in (int(c) + 97, int(c) - 97):
                res.violation('%s|second-check-accepted' % alg, 'alg', case, {'string': s, 'also': p + c2})
    # fold state for coverage accounting
    chk = getattr(m, 'checksum')
    n = len(s)
    # (3) substitutions
    for i in range(n):
        a = s[i]
        alpha = cfg['chk'] if i >= n - cfg['nchk'] else cfg['pay']
        if cfg['direction'] == 'L':
            state = chk(s[:i], **kw) if i else 0
            posc = 0
        else:
            state = chk(s[i + 1:] or (cfg['pay'][0]), **kw) if i + 1 < n else 0
            posc = (n - 1 - i) % (8 if alg == 'verhoeff' else 2)
        for b in (alpha if not case.get('light') else alpha[:2] + alpha[-1:]):
            if b == a or kind(b) != kind(a):
                continue
            res.nt(alg, 'sub', state, posc, a, b)
            if valid(s[:i] + b + s[i + 1:]):
                res.violation('%s|substitution-accepted' % alg, 'alg', case, {'string': s, 'pos': i, 'replacement': b})
    # (4)/(5) adjacent swaps
    if cfg['swaps']:
        first, last = cfg['pay'][0], cfg['pay'][-1]
        for i in range(n - 1):
            a, b = s[i], s[i + 1]
            if a == b:
                continue
            t = s[:i] + b + a + s[i + 2:]
            posc = (n - 1 - i) % (8 if alg == 'verhoeff' else 2)
            res.nt(alg, 'swap', posc, a, b)
            acc = valid(t)
            if cfg['swaps'] == 'all':
                if acc:
                    res.violation('%s|swap-accepted' % alg, 'alg', case, {'string': s, 'pos': i})
            else:
                blind = {a, b} == {first, last}
                if acc and not blind:
                    res.violation('%s|swap-accepted' % alg, 'alg', case, {'string': s, 'pos': i})
                if blind and not acc:
                    res.violation('%s|first-last-swap-detected(not-luhn)' % alg, 'alg', case, {'string': s, 'pos': i})
    if len(res.samples) < 3:
        res.sample({'alg': alg, 'payload': p, 'check': c})


SUBS = {'alg': prop}


def shard_exh(a):
    res = core.Result()
    cfg = CFG[a['alg']]
    cnt = 0
    for L in range(1, a['L'] + 1):
        for tup in itertools.product(cfg['pay'], repeat=L):
            cnt += 1
            if cnt % a['nsl'] != a['sl']:
                continue
            prop({'alg': a['alg'], 'p': ''.join(tup)}, res)
    res.notes['exhaustive_payloads'] = {a['alg']: len(res.samples) and cnt // a['nsl'] or 0}
    return res


def shard_rand(a):
    res = core.Result()
    cfg = CFG[a['alg']]
    strat = st.fixed_dictionaries({'alg': st.just(a['alg']),
                                   'p': st.text(alphabet=st.sampled_from(cfg['pay']), min_size=1, max_size=a['maxlen'])})
    core.drive(prop, strat, a['n'], (a['seed'], 'C06', a['alg']), res, shrink_skip=a['known'])
    return res


def shard_ladder(a):
    """Every payload length 1..top once (two payloads each) and a few long ones: a weight table that is shorter than the
    string, or whose period is off by one, only shows beyond a particular length (the statement says "any length")."""
    import random
    res = core.Result()
    cfg = CFG[a['alg']]
    rnd = random.Random(core.subseed(a['seed'], 'C06', 'ladder', a['alg']))
    for L in list(range(1, a['top'] + 1)) + a['long']:
        for rep in range(2 if L <= a['top'] else 1):
            p = ''.join(rnd.choice(cfg['pay']) for _ in range(L))
            res.hist['ladder-lengths'] += 1
            prop({'alg': a['alg'], 'p': p, 'light': L > 40}, res)
    return res


def run(ctx):
    core.number_modules()
    args = []
    for alg, cfg in CFG.items():
        k = len(cfg['pay'])
        if k <= 10:
            L = ctx.q(4, 6)
        elif k <= 16:
            L = ctx.q(3, 4)
        elif k <= 24:
            L = ctx.q(2, 3)
        else:
            L = ctx.q(2, 3)
        if alg.startswith('luhn/') and alg not in ('luhn/10', 'luhn/default', 'luhn/hex', 'luhn/16', 'luhn/36'):
            L = min(L, ctx.q(2, 3))
        total = sum(k ** i for i in range(1, L + 1))
        nsl = 1 if total < 3000 else 4 if total < 40000 else 16
        for sl in range(nsl):
            args.append({'shard': alg, 'alg': alg, 'L': L, 'sl': sl, 'nsl': nsl})
    res = core.run_shards(shard_exh, args)
    res.notes['exhaustive_lengths'] = 'decimal<=%d, 11..16 symbols<=%d, larger<=%d' % (ctx.q(4, 6), ctx.q(3, 4), ctx.q(2, 3))
    res2 = core.run_shards(shard_rand, [{'shard': alg, 'alg': alg, 'n': ctx.q(60, 1500), 'maxlen': ctx.q(64, 600), 'seed': ctx.seed,
                                         'known': ctx.known_buckets} for alg in CFG])
    res.merge(res2)
    res.merge(core.run_shards(shard_ladder, [{'shard': 'ladder:' + alg, 'alg': alg, 'top': ctx.q(130, 300), 'seed': ctx.seed,
                                              'long': ctx.q([160, 200, 256, 400, 3000], [400, 512, 700, 1000, 1500, 2500, 4000, 6000])} for alg in CFG]))
    return core.finish(ctx, res, LEVEL, RULE, ASSUME, SUBS, extra={'exhaustive': False, 'exhaustive_part': 'all payloads up to the stated length per alphabet'})
