"""C09 - aggregate validators accept exactly what their constituent formats accept."""
from hypothesis import strategies as st

from vf import core, gen

LEVEL = 'exploration'
RULE = ('per (wrapper, constituent) relation of hand-written dispatch tables: valid constituent numbers, their single-edit neighbours, '
        'prefix/case/separator variants (own, other-country and doubled prefixes, EL/GR, XI/GB); oracle: wrapper outcome == outcome '
        'computed from the constituents (acceptance and returned value), guess_*/type functions list exactly the accepting constituents; '
        'non-trivial = at least one side accepts, or reject/reject at edit distance 1; distinct by (relation, input)')
ASSUME = ['dispatch tables are transcribed by hand (not via get_cc_module) so alias resolution is itself under test',
          'inputs on which either side raises a non-ValidationError are C01 matters and skipped (counted)']

EU = dict(at='at.uid', be='be.vat', bg='bg.vat', cy='cy.vat', cz='cz.dic', de='de.vat', dk='dk.cvr', ee='ee.kmkr', es='es.nif',
          fi='fi.alv', fr='fr.tva', gr='gr.vat', el='gr.vat', hr='hr.oib', hu='hu.anum', ie='ie.vat', it='it.iva', lt='lt.pvm',
          lu='lu.tva', lv='lv.pvn', mt='mt.vat', nl='nl.btw', pl='pl.nip', pt='pt.nif', ro='ro.cf', se='se.vat', si='si.ddv',
          sk='sk.dph', xi='gb.vat', eu='eu.oss', im='eu.oss')
EU_GUESS = sorted(set(EU) - set(['el', 'eu', 'im']))  # guess_country: member states, gr not el
VATMAP = dict(ad='ad.nrt', al='al.nipt', ar='ar.cuit', at='at.uid', au='au.abn', br='br.cnpj', by='by.unp', ca='ca.bn', cl='cl.rut',
              cn='cn.uscc', co='co.nit', cr='cr.cpj', cz='cz.dic', dk='dk.cvr', do='do.rnc', dz='dz.nif', ec='ec.ruc', ee='ee.kmkr',
              eg='eg.tn', es='es.nif', fi='fi.alv', fo='fo.vn', fr='fr.tva', gh='gh.tin', gn='gn.nifp', gt='gt.nit', hr='hr.oib',
              hu='hu.anum', id='id.npwp', il='il.hp', is_='is_.vsk', it='it.iva', jp='jp.cn', ke='ke.pin', kr='kr.brn',
              lt='lt.pvm', lu='lu.tva', lv='lv.pvn', ma='ma.ice', mc='mc.tva', me='me.pib', mk='mk.edb', mx='mx.rfc', nl='nl.btw',
              no='no.mva', nz='nz.ird', pe='pe.ruc', pl='pl.nip', pt='pt.nif', py='py.ruc', ro='ro.cf', rs='rs.pib', ru='ru.inn',
              sg='sg.uen', si='si.ddv', sk='sk.dph', sm='sm.coe', sv='sv.nit', tn='tn.mf', tr='tr.vkn', tw='tw.ubn', uy='uy.rut',
              ve='ve.rif', vn='vn.mst', be='be.vat', bg='bg.vat', ch='ch.vat', cy='cy.vat', de='de.vat', gb='gb.vat', gr='gr.vat',
              ie='ie.vat', mt='mt.vat', se='se.vat', el='gr.vat', xi='gb.vat')
VATMAP['in'] = 'in_.gstin'
VATMAP['is'] = VATMAP.pop('is_')
UNIONS = {'us.tin': ['us.ssn', 'us.itin', 'us.ein', 'us.ptin', 'us.atin'], 'be.ssn': ['be.nn', 'be.bis'], 'th.tin': ['th.moa', 'th.pin']}
NAT_IBAN = {'BE': 'be.iban', 'ES': 'es.iban', 'NO': 'no.iban', 'ME': 'me.iban'}


def M(n):
    return core.mod(n)


def acc(o):
    return o[0] == 'ok'


def norm(x):
    from stdnum.util import clean
    return clean(x, '').upper().strip()


def same(o, exp):
    """outcomes agree: both rejected, or both accepted with the same value."""
    if exp[0] == 'ok':
        return o == exp
    return o[0] == 'verr'


def prop(case, res):
    rel = case['rel']
    x = core.dec(case['x'])
    res.evals += 1
    fn = RELS[rel.split(':')[0]]
    r = fn(rel, x)
    if r is None:
        res.hist['skipped:non-ValidationError (C01)'] += 1
        return
    anyacc, bad = r
    if anyacc or case.get('near'):
        res.nt(rel, x)
    res.hist['accepted-by-a-side' if anyacc else 'rejected-by-both'] += 1
    res.hist['cases:' + rel.split(':')[0]] += 1
    for kind, detail in bad:
        res.violation('%s|%s' % (rel, kind), 'c09', case, detail)
    if res.evals % 61 == 1:
        res.sample({'relation': rel, 'x': x, 'accepted_by_a_side': anyacc})


def r_euvat(rel, x):
    eu = M('eu.vat')
    o = core.out(eu.validate, x)
    n = norm(x)
    p2 = n[:2].lower()
    bad = []
    if p2 in EU:
        oc = core.out(M(EU[p2]).validate, n)
        if o[0] == 'EXC' or oc[0] == 'EXC':
            return None
        CC = p2.upper()
        exp = ('ok', oc[1] if oc[1].startswith(CC) else CC + oc[1]) if acc(oc) else oc
        if not same(o, exp):
            bad.append(('wrapper!=constituent:%s' % ('wrapper-accepts' if acc(o) else 'wrapper-rejects' if acc(exp) else 'value'),
                        {'x': x, 'eu.vat': [str(t) for t in o], EU[p2]: [str(t) for t in exp]}))
        # the number without the country code, as the national module is documented to take it: if that is accepted, the
        # prefixed spelling handed over by the dispatcher has to be accepted too
        oc2 = core.out(M(EU[p2]).validate, n[2:])
        if acc(oc2) and oc2[1] == n[2:] and not acc(o) and o[0] != 'EXC' and len(n) > 4 and n[2:4].upper() != CC and p2 not in ('eu', 'im'):
            bad.append(('wrapper-rejects-number-the-national-module-accepts-without-prefix',
                        {'x': x, 'eu.vat': [str(t) for t in o], EU[p2] + '(unprefixed)': oc2[1]}))
        anyacc = acc(o) or acc(oc)
    else:
        if o[0] == 'EXC':
            return None
        if acc(o):
            bad.append(('accepts-unknown-prefix', {'x': x, 'eu.vat': o[1]}))
        anyacc = acc(o)
    ov = core.out(M('vatin').validate, x)
    if acc(o) and ov[0] != 'EXC' and ov != o:
        pre = 'EU/IM' if p2 in ('eu', 'im') else 'member-state'
        bad.append(('vatin-not-superset:%s' % pre, {'x': x, 'eu.vat': o[1], 'vatin': [str(t) for t in ov]}))
    return anyacc, bad


def r_vatin(rel, x):
    """vatin vs the country module of the hand-written alias table."""
    v = M('vatin')
    o = core.out(v.validate, x)
    from stdnum.util import clean
    n = clean(x, '').strip()
    cc = n[:2].lower()
    if o[0] == 'EXC':
        return None
    bad = []
    if cc in VATMAP:
        m = M(VATMAP[cc])
        # whitespace between the country code and the number is dropped by the dispatcher (as its compact() does)
        a = core.out(m.validate, n[2:].strip())
        b = core.out(m.validate, n[:2] + n[2:].strip())
        if a[0] == 'EXC' or b[0] == 'EXC':
            return None
        exp = ('ok', n[:2].upper() + a[1]) if acc(a) else b
        if not same(o, exp):
            bad.append(('wrapper!=constituent:%s' % ('wrapper-accepts' if acc(o) else 'wrapper-rejects' if acc(exp) else 'value'),
                        {'x': x, 'vatin': [str(t) for t in o], VATMAP[cc]: [str(t) for t in exp]}))
        return acc(o) or acc(exp), bad
    if cc == 'eu':
        return acc(o), bad  # the EU one-stop-shop scheme is handled by eu.vat (r_euvat)
    if acc(o):
        bad.append(('accepts-unknown-country', {'x': x, 'vatin': o[1]}))
    return acc(o), bad


def r_union(rel, x):
    w = rel.split(':')[1]
    parts = UNIONS[w]
    o = core.out(M(w).validate, x)
    outs = [(p, core.out(M(p).validate, x)) for p in parts]
    if o[0] == 'EXC' or any(q[0] == 'EXC' for _, q in outs):
        return None
    accepting = [p for p, q in outs if acc(q)]
    bad = []
    if acc(o) != bool(accepting):
        bad.append(('union-differs:%s' % ('wrapper-accepts' if acc(o) else 'wrapper-rejects'), {'x': x, w: [str(t) for t in o], 'accepting': accepting}))
    elif acc(o) and o[1] not in [q[1] for _, q in outs if acc(q)]:
        bad.append(('value-from-no-constituent', {'x': x, w: o[1]}))
    names = [p.split('.')[1] for p in accepting]
    if w == 'us.tin':
        g = core.out(M(w).guess_type, x)
        if g[0] == 'ok' and list(g[1]) != names:
            bad.append(('guess_type-differs', {'x': x, 'guess_type': g[1], 'accepting': names}))
    elif w == 'be.ssn':
        g = core.out(M(w).guess_type, x)
        if g[0] == 'ok' and ((g[1] is None) != (not names) or (g[1] is not None and g[1] not in names)):
            bad.append(('guess_type-differs', {'x': x, 'guess_type': g[1], 'accepting': names}))
    elif w == 'th.tin':
        g = core.out(M(w).tin_type, x)
        if g[0] == 'ok' and ((g[1] is None) != (not names) or (g[1] is not None and g[1] != names[0])):
            bad.append(('tin_type-differs', {'x': x, 'tin_type': g[1], 'accepting': names}))
    return acc(o) or bool(accepting), bad


def r_guess_country(rel, x):
    g = core.out(M('eu.vat').guess_country, x)
    outs = [(cc, core.out(M(EU[cc]).is_valid, x)) for cc in EU_GUESS]
    if g[0] != 'ok' or any(q[0] != 'ok' for _, q in outs):
        return None
    exp = sorted(cc for cc, q in outs if q[1] is True)
    bad = []
    if sorted(g[1]) != exp:
        bad.append(('guess_country-differs', {'x': x, 'guess_country': sorted(g[1]), 'accepting': exp}))
    return bool(exp) or bool(g[1]), bad


def r_nif(rel, x):
    p = rel.split(':')[1]
    v = core.out(M(p).validate, x)
    if not acc(v):
        return False, []
    bad = []
    for inp in (v[1], x):
        o = core.out(M('es.nif').validate, inp)
        if o[0] == 'EXC':
            return None
        if o != ('ok', v[1]):
            bad.append(('es.nif-rejects-valid-%s' % p.split('.')[1], {'x': inp, 'canonical': v[1], 'es.nif': [str(t) for t in o]}))
            break
    return True, bad


def r_iban(rel, x):
    ib = M('iban')
    o = core.out(ib.validate, x)
    g = core.out(ib.validate, x, check_country=False)
    if o[0] == 'EXC' or g[0] == 'EXC':
        return None
    cc = norm(x)[:2]
    bad = []
    if cc in NAT_IBAN and acc(g):
        no = core.out(M(NAT_IBAN[cc]).validate, x)
        if no[0] == 'EXC':
            return None
        exp = g if acc(no) else ('verr', 'x')
    else:
        exp = g
    if not same(o, exp):
        bad.append(('iban!=generic+national:%s' % ('accepts' if acc(o) else 'rejects'), {'x': x, 'iban': [str(t) for t in o], 'expected': [str(t) for t in exp]}))
    return acc(o) or acc(g), bad


def r_thin(rel, x):
    w = rel.split(':')[1]
    o = core.out(M(w).validate, x)
    if o[0] == 'EXC':
        return None
    bad = []

    def need(cond, kind, **d):
        if not cond:
            d['x'] = x
            d[w] = [str(t) for t in o]
            bad.append((kind, d))
    if w in ('fi.ytunnus', 'sk.rc'):
        other = {'fi.ytunnus': 'fi.alv', 'sk.rc': 'cz.rc'}[w]
        c = core.out(M(other).validate, x)
        if c[0] == 'EXC':
            return None
        need(same(o, c), 'differs-from-' + other, constituent=[str(t) for t in c])
        return acc(o) or acc(c), bad
    if w == 'ch.vat':
        if acc(o):
            need(acc(core.out(M('ch.uid').validate, o[1][:12])) and o[1][12:] in ('MWST', 'TVA', 'IVA', 'TPV'), 'accepted-but-uid-invalid')
        u = core.out(M('ch.uid').validate, x)
        if acc(u):
            for suf in ('MWST', 'TVA', 'IVA', 'TPV'):
                need(core.out(M(w).validate, u[1] + ' ' + suf) == ('ok', u[1] + suf), 'valid-uid+suffix-rejected')
        return acc(o) or acc(u), bad
    if w == 'se.vat':
        if acc(o):
            need(o[1].endswith('01') and acc(core.out(M('se.orgnr').validate, o[1][:-2])), 'accepted-but-orgnr-invalid')
        u = core.out(M('se.orgnr').validate, x)
        if acc(u):
            need(core.out(M(w).validate, 'SE' + u[1] + '01') == ('ok', u[1] + '01'), 'valid-orgnr+01-rejected')
        return acc(o) or acc(u), bad
    if w == 'no.mva':
        if acc(o):
            need(o[1].endswith('MVA') and acc(core.out(M('no.orgnr').validate, o[1][:-3])), 'accepted-but-orgnr-invalid')
        u = core.out(M('no.orgnr').validate, x)
        if acc(u):
            need(core.out(M(w).validate, 'NO' + u[1] + 'MVA') == ('ok', u[1] + 'MVA'), 'valid-orgnr+MVA-rejected')
        return acc(o) or acc(u), bad
    if w == 'mc.tva':
        c = core.out(M('fr.tva').validate, x)
        if c[0] == 'EXC':
            return None
        exp = ('ok', 'FR' + c[1]) if acc(c) and c[1][2:5] == '000' else ('verr', 'x')
        need(same(o, exp), 'differs-from-fr.tva', expected=[str(t) for t in exp])
        return acc(o) or acc(c), bad
    if w == 'ro.cf':
        n = core.out(M('ro.cf').compact, x)
        if n[0] != 'ok':
            return acc(o), bad
        cn = n[1][2:] if n[1].startswith('RO') else n[1]
        a, b = core.out(M('ro.cnp').validate, cn), core.out(M('ro.cui').validate, n[1])
        if a[0] == 'EXC' or b[0] == 'EXC':
            return None
        ok = (len(cn) == 13 and acc(a)) or (2 <= len(cn) <= 10 and acc(b))
        need(acc(o) == ok, 'differs-from-cnp/cui', cnp=a[0], cui=b[0])
        return acc(o) or ok, bad
    raise core.HarnessError('no thin relation ' + w)


RELS = {'eu.vat': r_euvat, 'vatin': r_vatin, 'union': r_union, 'guess_country': r_guess_country, 'es.nif': r_nif, 'iban': r_iban, 'thin': r_thin}

SUBS = {'c09': prop}


def edit1(base):
    """single-edit neighbour over the format alphabet."""
    @st.composite
    def s(draw):
        v = draw(base)
        if not v:
            return v
        i = draw(st.integers(0, len(v) - 1))
        c = draw(st.sampled_from('0123456789ABKXZ \n'))
        k = draw(st.integers(0, 2))
        return v[:i] + c + v[i + 1:] if k == 0 else v[:i] + c + v[i:] if k == 1 else v[:i] + v[i + 1:]
    return s()


def prefixed(cc_list, base, own):
    @st.composite
    def s(draw):
        v = draw(base)
        if v[:2].upper() == own.upper():
            v = draw(st.sampled_from([v, v[2:]]))
        k = draw(st.integers(0, 9))
        cc = own if k < 7 else draw(st.sampled_from(cc_list))
        form = draw(st.integers(0, 7))
        CC = cc.upper()
        if form == 0:
            return CC + v
        if form == 1:
            return cc.lower() + v
        if form == 2:
            return CC + ' ' + v
        if form == 3:
            return CC + CC + v
        if form == 4:
            return ' ' + CC + v.lower()
        if form == 5:
            return CC[0] + cc[1].lower() + '-' + v
        if form == 6:
            return v
        return CC + '\t' + v + ' '
    return s()


def shard(a):
    res = core.Result()
    rel, src = a['rel'], a['src']
    valid = gen.valid_numbers(src)
    raw = st.sampled_from(gen.seeds(src))
    base = st.one_of(valid, valid, raw, edit1(valid))
    kind = rel.split(':')[0]
    if kind == 'eu.vat':
        x = prefixed(sorted(EU), base, a['cc'])
    elif kind == 'vatin':
        x = prefixed(sorted(VATMAP) + ['zz', 'us', 'eu'], base, a['cc'])
    elif kind == 'guess_country':
        x = st.one_of(base, prefixed(EU_GUESS, base, a['cc']))
    elif kind == 'iban':
        @st.composite
        def generic_only(draw):
            # an IBAN that satisfies the generic rules but (most likely) not the national ones: one BBAN character of a valid
            # number changed within its class and the IBAN check digits recomputed
            v = draw(valid)
            i = draw(st.integers(4, len(v) - 1))
            al = gen.cls(v[i]) or '0123456789'
            w = v[:i] + draw(st.sampled_from(al)) + v[i + 1:]
            val = int(''.join(str(int(c, 36)) for c in w[4:] + w[:2] + '00')) % 97
            return w[:2] + '%02d' % (98 - val) + w[4:]
        x = st.one_of(base, gen.decorations(src, base), gen.edits(valid), generic_only(), generic_only())
    else:
        x = st.one_of(base, gen.decorations(src, base), gen.edits(valid))
    strat = st.builds(lambda xx: {'rel': rel, 'x': core.enc(xx)}, x)
    core.drive(prop, strat, a['n'], (a['seed'], 'C09', rel, src), res, shrink_skip=a['known'])
    if kind in ('es.nif', 'union', 'thin'):
        # every letter at every letter position of a few valid constituent numbers (per-letter branches of the wrapper)
        # ... and every two-digit field value (month offsets of be.bis, type digits), edge characters, table bounds
        for w in gen.class_sweep(src, nbase=3) + gen.pair_pool(src, nbase=2) + gen.edge_pool(src) + gen.boundary_pool(src):
            prop({'rel': rel, 'x': w}, res)
    if kind in ('eu.vat', 'vatin'):
        # every length and edge character the national module accepts, with and without the country prefix (a dispatcher
        # hands the prefixed spelling on first)
        CC = a['cc'].upper()
        for w in gen.edge_pool(src) + gen.boundary_pool(src):
            w2 = w[2:] if w[:2].upper() == CC else w
            for x in (CC + w2, CC + ' ' + w2, w):
                prop({'rel': rel, 'x': x}, res)
    res.notes['cases_per_relation_source'] = {'%s<-%s' % (rel, src): res.evals}
    return res


def run(ctx):
    core.number_modules()
    n = ctx.q(120, 3000)
    args = []

    def add(rel, src, cc=None, mult=1):
        args.append({'shard': rel + '<-' + src, 'rel': rel, 'src': src, 'cc': cc, 'n': n * mult, 'seed': ctx.seed, 'known': ctx.known_buckets})
    for cc, mn in sorted(EU.items()):
        add('eu.vat', mn, cc)
    for cc, mn in sorted(VATMAP.items()):
        add('vatin', mn, cc)
    for cc in EU_GUESS:
        add('guess_country', EU[cc], cc)
    for w, parts in UNIONS.items():
        for p in parts:
            add('union:' + w, p, mult=2)
        add('union:' + w, w, mult=2)
    for p in ('es.dni', 'es.nie', 'es.cif'):
        add('es.nif:' + p, p, mult=2)
    for src in ['iban', 'be.iban', 'es.iban', 'no.iban', 'me.iban']:
        add('iban', src, mult=3)
    for w, srcs in {'ch.vat': ['ch.vat', 'ch.uid'], 'se.vat': ['se.vat', 'se.orgnr'], 'no.mva': ['no.mva', 'no.orgnr'],
                    'fi.ytunnus': ['fi.ytunnus', 'fi.alv'], 'sk.rc': ['sk.rc', 'cz.rc'], 'mc.tva': ['mc.tva', 'fr.tva'],
                    'ro.cf': ['ro.cf', 'ro.cnp', 'ro.cui']}.items():
        for s in srcs:
            add('thin:' + w, s, mult=2)
    res = core.run_shards(shard, args)
    res.notes['relation_source_pairs'] = len(args)
    return core.finish(ctx, res, LEVEL, RULE, ASSUME, SUBS)
