"""C10 - registry lookup splits numbers losslessly and by the documented prefix rules."""
import glob
import io
import os

from hypothesis import strategies as st

from vf import core
from vf.refs import numdbref

LEVEL = 'exploration'
RULE = ('(a) the 17 shipped registries + tests/numdb-test.dat x queries built from the file (range endpoints, +-1 in the registry '
        'alphabet, shorter/longer prefixes, concatenations along root-to-leaf paths, random strings, empty); (b) Hypothesis-generated '
        'well-formed registry files (nesting, multi-range lines, overlapping ranges of mixed length, repeated properties, comments, '
        'indent steps 1-3) x generated queries; oracle: numdb info()/split() == independent reference reader+lookup, parts join to '
        'the query; non-trivial = query matching >=2 levels, or hitting an equal-length merge or a shortest-prefix override; '
        'distinct by (file text, query)')
ASSUME = ['queries whose matched lines are not fully understood by the strict reference reader (a C11 matter) are skipped and counted',
          'generated files stay inside the documented grammar (no dedent to an unseen level, no tabs, no quote in values)']


def registries():
    root = os.path.join(core.REPO, 'stdnum')
    files = sorted(glob.glob(os.path.join(root, '*.dat')) + glob.glob(os.path.join(root, '*', '*.dat')))
    return [(f[len(root) + 1:-4], f) for f in files]


def compare(db, roots, badlines, q, res, case, label):
    from stdnum import numdb  # noqa: F401
    res.evals += 1
    diag = {}
    exp = numdbref.lookup(roots, q, diag)
    if badlines and set(diag.get('lines', ())) & badlines:
        res.hist['skipped:ill-formed-line(C11)'] += 1
        return
    o = core.out(db.info, q)
    if diag.get('levels', 0) >= 2:
        res.hist['class:multi-level'] += 1
    if diag.get('merge'):
        res.hist['class:equal-length-merge'] += 1
    if diag.get('override'):
        res.hist['class:shortest-prefix-override'] += 1
    if diag.get('levels', 0) >= 2 or diag.get('merge') or diag.get('override'):
        res.nt(label, q)
    if o[0] != 'ok':
        res.violation('%s|info-raises:%s' % (label, o[1]), case['sub'], case['case'](q), {'query': q, 'out': [str(t) for t in o]})
        return
    got = o[1]
    try:
        shape_ok = all(isinstance(p, str) and isinstance(d, dict) for p, d in got)
    except Exception:  # noqa: B902
        shape_ok = False
    if not shape_ok:
        res.violation('%s|info-shape' % label, case['sub'], case['case'](q), {'query': q, 'got': repr(got)[:200]})
        return
    if ''.join(p for p, _ in got) != q:
        res.violation('%s|lossy-split' % label, case['sub'], case['case'](q), {'query': q, 'got': repr(got)[:200]})
    gl = [(p, dict(d)) for p, d in got]
    if [p for p, _ in gl] != [p for p, _ in exp]:
        res.violation('%s|split-differs' % label, case['sub'], case['case'](q), {'query': q, 'got': repr(gl)[:200], 'expected': repr(exp)[:200]})
    elif gl != exp:
        res.violation('%s|properties-differ' % label, case['sub'], case['case'](q), {'query': q, 'got': repr(gl)[:300], 'expected': repr(exp)[:300]})
    s = core.out(db.split, q)
    if s[0] != 'ok' or list(s[1]) != [p for p, _ in got]:
        res.violation('%s|split!=info-parts' % label, case['sub'], case['case'](q), {'query': q, 'split': repr(s)[:200]})
    if res.evals % 997 == 1:
        res.sample({'registry': label, 'query': q, 'info': repr(gl)[:160]})


def queries_for(roots, alpha, rnd, limit):
    """Queries built from the file itself."""
    qs = ['']
    entries = []

    def walk(es, prefix_lo, prefix_hi):
        for e in es:
            if not e.ranges:
                continue
            entries.append((e, prefix_lo, prefix_hi))
            walk(e.children, prefix_lo + e.ranges[0][0], prefix_hi + e.ranges[-1][1])
    walk(roots, '', '')
    if len(entries) > limit:
        entries = rnd.sample(entries, limit)

    def bump(s, d):
        i = alpha.find(s[-1])
        j = i + d
        if 0 <= j < len(alpha):
            return s[:-1] + alpha[j]
        return s + alpha[0] if d > 0 else s[:-1]
    for e, plo, phi in entries:
        for lo, hi in e.ranges:
            for p in (plo, phi) if plo != phi else (plo,):
                for w in {lo, hi}:
                    tail = ''.join(rnd.choice(alpha) for _ in range(rnd.randint(0, 4)))
                    qs.extend([p + w, p + w + tail, p + bump(w, 1), p + bump(w, -1), p + w[:-1], p + w + alpha[0], p + bump(w, 1) + tail])
    for _ in range(max(50, len(entries) // 4)):
        qs.append(''.join(rnd.choice(alpha) for _ in range(rnd.randint(0, 20))))
    # the lookup compares strings as they are: characters outside the registry alphabet (other case, other scripts)
    # never match and must come back unchanged
    if any(c.isalpha() for c in alpha):
        qs.extend([q.lower() for q in qs[1:400:3]] + [q.swapcase() for q in qs[2:400:5]])
    qs.extend([q[:1] + 'é' + q[1:] for q in qs[1:200:7]] + [q + '٣' for q in qs[1:200:11]])
    return qs


def prop_shipped(case, res):
    """case: {'name': registry name, 'q': query}"""
    from stdnum import numdb
    name = case['name']
    text = _text(name)
    roots, problems = _parsed(name)
    db = numdb.get(name) if not name.startswith('tests/') else numdb.read(io.StringIO(text))
    bad = set(l for l, k, _ in problems)
    compare(db, roots, bad, case['q'], res, {'sub': 'shipped', 'case': lambda q: {'name': name, 'q': q}}, name)


_cache = {}


def _text(name):
    if name.startswith('tests/'):
        p = os.path.join(core.REPO, name + '.dat')
    else:
        p = os.path.join(core.REPO, 'stdnum', name + '.dat')
    return open(p, encoding='utf-8').read()


def _parsed(name):
    if name not in _cache:
        _cache[name] = numdbref.parse(_text(name))
    return _cache[name]


def prop_generated(case, res):
    """case: {'text': registry text, 'qs': [queries]}"""
    from stdnum import numdb
    text = case['text']
    roots, problems = numdbref.parse(text)
    hard = [p for p in problems if p[1] != 'duplicate-property']
    if hard:
        raise core.HarnessError('generator produced an ill-formed registry: %r' % (hard[:2],))
    o = core.out(lambda: numdb.read(io.StringIO(text)))
    if o[0] != 'ok':
        res.evals += 1
        res.violation('generated|read-raises:%s' % o[1], 'generated', case, {'out': [str(t) for t in o]})
        return
    for q in case['qs']:
        compare(o[1], roots, set(), q, res, {'sub': 'generated', 'case': lambda q: {'text': text, 'qs': [q]}}, 'generated')


SUBS = {'shipped': prop_shipped, 'generated': prop_generated}


def shard_shipped(a):
    import random
    res = core.Result()
    name = a['name']
    rnd = random.Random(core.subseed(a['seed'], 'C10', name))
    roots, problems = _parsed(name)
    alpha = numdbref.alphabet(roots) or '0'
    qs = queries_for(roots, alpha, rnd, a['limit'])
    seen = set()
    for q in qs[a['part']::a['parts']]:
        if q in seen:
            continue
        seen.add(q)
        prop_shipped({'name': name, 'q': q}, res)
    res.notes['queries_per_registry'] = {name: len(seen)}  # summed over the parts of a registry
    return res


def registry_texts():
    alpha = st.sampled_from(['01', '012', '0123456789', '019AZ', '01az', '0Aa'])

    @st.composite
    def reg(draw):
        al = draw(alpha)
        lines = []

        def rng(maxlen):
            n = draw(st.integers(1, maxlen))
            a = ''.join(draw(st.sampled_from(al)) for _ in range(n))
            if draw(st.booleans()):
                return a
            b = ''.join(draw(st.sampled_from(al)) for _ in range(n))
            lo, hi = sorted((a, b))
            return lo if lo == hi else '%s-%s' % (lo, hi)

        def level(depth, indent):
            step = draw(st.integers(1, 3))
            for _ in range(draw(st.integers(1, 4))):
                ranges = ','.join(rng(3) for _ in range(draw(st.integers(1, 3))))
                keys = draw(st.lists(st.sampled_from(['a', 'b', 'c', 'x-y', 'k_1']), max_size=2, unique=True))
                props = ' '.join('%s="%s"' % (k, draw(st.sampled_from(['x', 'y', '', 'p q', 'ü=1', "it's"]))) for k in keys)
                r = draw(st.integers(0, 19))
                if r == 0:
                    lines.append('# comment 1-2 a="b"')
                elif r == 1:
                    lines.append('')
                lines.append(' ' * indent + ranges + (' ' + props if props else ''))
                if depth < 3 and draw(st.booleans()):
                    level(depth + 1, indent + step)
        level(0, 0)
        text = '\n'.join(lines) + '\n'
        qs = draw(st.lists(st.text(alphabet=st.sampled_from(al + al.lower() if any(c.isalpha() for c in al) else al), max_size=9), min_size=8, max_size=25))
        return {'text': text, 'qs': qs}
    return reg()


def shard_generated(a):
    res = core.Result()
    core.drive(prop_generated, registry_texts(), a['n'], (a['seed'], 'C10', 'gen', a['i']), res, shrink_skip=a['known'])
    return res


def run(ctx):
    core.number_modules()
    names = [n for n, _ in registries()] + ['tests/numdb-test']
    sargs = []
    for n in names:
        parts = 8 if n == 'oui' else 2 if n in ('imsi', 'cn/loc', 'at/postleitzahl', 'nz/banks', 'cfi', 'isbn') else 1
        for i in range(parts):
            sargs.append({'shard': n, 'name': n, 'seed': ctx.seed, 'limit': ctx.q(400 if n == 'oui' else 800, 10 ** 9), 'part': i, 'parts': parts})
    res = core.run_shards(shard_shipped, sargs)
    res2 = core.run_shards(shard_generated, [{'shard': 'gen%d' % i, 'i': i, 'n': ctx.q(150, 4000), 'seed': ctx.seed,
                                              'known': ctx.known_buckets} for i in range(16)])
    res.merge(res2)
    res.notes['registries'] = len(names)
    for cls in ('class:multi-level', 'class:equal-length-merge', 'class:shortest-prefix-override'):
        if res.hist.get(cls, 0) < 20:
            res.errors.append('class %s is starved (%d cases)' % (cls, res.hist.get(cls, 0)))
    return core.finish(ctx, res, LEVEL, RULE, ASSUME, SUBS)
