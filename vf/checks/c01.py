"""C01 - validate()/is_valid() error contract (DESIGN 3, C01)."""
import inspect

from hypothesis import strategies as st

from vf import core, gen

LEVEL = 'exploration'
RULE = ('per module: Hypothesis-generated values (hostile edits of valid numbers, decorated valid numbers, '
        'free/long text, non-strings) x option table x frozen clock; non-trivial = value is a str or an '
        'iterable (gets past the first clean() gate); distinct by (module, value, options)')
ASSUME = ['options are well-typed values of the documented kind', 'objects whose own dunder methods raise are outside the domain',
          'clock frozen via shim of the datetime name in stdnum modules']

_sig = {}


def _iv_params(m):
    if m not in _sig:
        _sig[m] = set(inspect.signature(m.is_valid).parameters)
    return _sig[m]


def prop(case, res):
    name = case['mod']
    m = core.number_modules()[name]
    v = core.dec(case['value'])
    opts = gen.dec_opts(case.get('opts') or {})
    core.set_today(case.get('clock'))
    res.evals += 1
    if isinstance(v, (str, list, tuple, core.StrLike, bytes, bytearray, set, dict)):
        res.nt(name, core.canon(case['value']), sorted(case.get('opts') or {}))
    o = core.out(m.validate, v, **opts)
    if o[0] == 'EXC':
        res.hist['validate:EXC'] += 1
        res.violation('%s|validate|%s|%s' % (name, o[1], o[2]), 'c01', case, {'validate': o})
    elif o[0] == 'ok' and not isinstance(o[1], str):
        res.hist['validate:non-str'] += 1
        res.violation('%s|validate|non-str-return' % name, 'c01', case, {'returned': repr(o[1])[:80]})
    else:
        res.hist['validate:' + (o[1] if o[0] == 'verr' else 'ok')] += 1
    ivo = dict((k, x) for k, x in opts.items() if k in _iv_params(m))
    o2 = core.out(m.is_valid, v, **ivo)
    if o2[0] == 'EXC' and o2 == o:
        pass  # same exception from the same frame as validate(): one root cause, reported above
    elif o2[0] != 'ok':
        res.violation('%s|is_valid|raises|%s|%s' % (name, o2[1], o2[2] if len(o2) > 2 else ''), 'c01', case, {'is_valid': o2})
    elif o2[1] is not True and o2[1] is not False:
        res.violation('%s|is_valid|non-bool' % name, 'c01', case, {'is_valid': repr(o2[1])[:80]})
    else:
        oc = o if ivo == opts else core.out(m.validate, v, **ivo)
        if oc[0] != 'EXC' and (o2[1] is True) != (oc[0] == 'ok'):
            res.violation('%s|is_valid!=validate|is_valid=%s' % (name, o2[1]), 'c01', case,
                          {'is_valid': o2[1], 'validate': [oc[0], repr(oc[1])[:80]]})
    if res.evals % 37 == 1:
        res.sample({'mod': name, 'value': repr(v)[:60], 'opts': case.get('opts'), 'validate': [str(x)[:40] for x in o]})
    core.set_today(None)


SUBS = {'c01': prop}


def strategy(name, maxlen):
    valid = gen.valid_numbers(name)
    raw = st.sampled_from(gen.seeds(name))
    base = st.one_of(valid, raw)
    nm = gen.near_misses(name)
    strs = [gen.edits(base), gen.edits(base), gen.edits(base), gen.newline_edits(base), gen.decorations(name, valid),
            gen.edits(gen.decorations(name, valid)), st.text(max_size=40), gen.long_text(maxlen),
            st.text(alphabet=st.sampled_from(list('0123456789ABCXZ -.') + gen.CONTROLS[:3]), max_size=30)]
    if nm:
        strs.append(gen.edits(st.sampled_from(nm)))
    extra = gen.extra_valid(name)
    if extra is not None:
        strs += [extra, gen.edits(extra)]
    value = st.one_of(st.one_of(*strs).map(core.enc), st.one_of(*strs).map(core.enc), st.one_of(*strs).map(core.enc),
                      st.one_of(*strs).map(core.enc), gen.nonstrings(base))
    return st.fixed_dictionaries({'mod': st.just(name), 'value': value, 'opts': gen.option_strategy(name),
                                  'clock': gen.clock_strategy(name)})


def shard(a):
    res = core.Result()
    name = a['mod']
    core.drive(prop, strategy(name, a['maxlen']), a['n'], (a['seed'], 'C01', name), res,
               shrink_skip=a['known'], shrink=True)
    optlists = gen.option_lists(name)
    clocks = [None, '1990-01-01', '2100-12-31'] if name in gen.CLOCK_MODULES else [None]
    if len(optlists) > 1 or len(clocks) > 1:
        # every documented option value x valid numbers (and near misses) x clock corner dates: is_valid <=> validate
        base = st.one_of(gen.valid_numbers(name), gen.valid_numbers(name), gen.edits(gen.valid_numbers(name)))
        strat = st.fixed_dictionaries({'mod': st.just(name), 'value': base.map(core.enc), 'opts': st.sampled_from(optlists),
                                       'clock': st.sampled_from(clocks)})
        core.drive(prop, strat, a['n'], (a['seed'], 'C01', 'options', name), res, shrink_skip=a['known'], shrink=True)
    extra = gen.extra_valid(name)
    if extra is not None:
        # registry-walking generator: reach every branch of the registry the module consumes
        strat = st.fixed_dictionaries({'mod': st.just(name), 'value': st.one_of(extra, gen.decorations(name, extra)).map(core.enc),
                                       'opts': st.just({}), 'clock': st.none()})
        core.drive(prop, strat, a['n'] * 3, (a['seed'], 'C01', 'extra', name), res, shrink_skip=a['known'], shrink=True)
    # systematic sweep: every position of a few valid numbers x a set of suspicious characters (substituted and inserted);
    # this is what reaches a character class that was widened in one position of one pattern
    import random
    rnd = random.Random(core.subseed(a['seed'], 'C01', 'sweep', name))
    nums = gen.pool(name)
    picks = nums[:1] + (rnd.sample(nums[1:], min(a['nsweep'] - 1, len(nums) - 1)) if len(nums) > 1 else [])
    seeds = gen.accepted_seeds(name)
    if seeds:
        picks.append(rnd.choice(seeds))
    # date-carrying numbers on a leap day: one substituted character (century sign, century digit) then makes the date
    # impossible, which has to come out as a ValidationError
    from vf.checks.c12 import DATE_LAYOUT
    lay = DATE_LAYOUT.get(name)
    if name == 'se.personnummer':
        picks += gen.leap_numbers(name, (slice(0, 2), slice(2, 4), slice(4, 6)))[:9]
    elif lay is not None and lay[0] is not None:
        picks += gen.leap_numbers(name, (lay[0], lay[2], lay[3]))[:6]
    before = res.evals
    for v in picks:
        if len(v) > 40:
            continue
        for i in range(len(v) + 1):
            for c in gen.SUSPICIOUS:
                if i < len(v):
                    prop({'mod': name, 'value': core.enc(v[:i] + c + v[i + 1:]), 'opts': {}, 'clock': None}, res)
                if i % 2 == 0 or i >= len(v) - 1:
                    prop({'mod': name, 'value': core.enc(v[:i] + c + v[i:]), 'opts': {}, 'clock': None}, res)
    # the module's own string literals as a fuzzing dictionary: literal + digits to a range of lengths + one hostile character
    for x in gen.literal_probes(name):
        prop({'mod': name, 'value': core.enc(x), 'opts': {}, 'clock': None}, res)
    # very long inputs (the quantifier's "any length"): digit strings beyond the 4300-digit int() conversion limit, with
    # and without the prefixes / separators the module strips, plus long letter runs
    cc = name.split('.')[0].upper().rstrip('_') if '.' in name else ''
    first = picks[0] if picks else '1'
    for x in ['0' * 4301, '1' * 4301, '9' * 5000, cc + '0' * 4400, cc + ' ' + '12' * 2300, first + '7' * 4400, first[:2] + '3' * 4400 + first[-2:],
              '1' * 4300 + 'X', 'A' * 5000, '-'.join(['1234'] * 1200), first + ' ' * 5000 + first]:
        prop({'mod': name, 'value': core.enc(x), 'opts': {}, 'clock': None}, res)
    res.hist['sweep-cases'] += res.evals - before
    res.notes['cases_per_module'] = {name: res.evals}
    return res


def run(ctx):
    mods = core.number_modules()
    n = ctx.q(300, 5000)
    args = [{'shard': name, 'mod': name, 'n': n, 'seed': ctx.seed, 'maxlen': ctx.q(6000, 60000), 'nsweep': ctx.q(3, 12),
             'known': ctx.known_buckets} for name in mods]
    # heavy modules last is fine; sort by name for determinism
    res = core.run_shards(shard, args)
    res.notes['modules'] = len(mods)
    # coverage-guided complement: atheris explores (module, text) with the contract as in-target oracle; each case it
    # reports is decided by prop() above
    core.fuzz_campaign(ctx, 'c01', ctx.q(12, 420), lambda n: gen.pool(n),
                       lambda c: prop({'mod': c['mod'], 'value': core.enc(c['x']), 'opts': {}, 'clock': None}, res), res)
    return core.finish(ctx, res, LEVEL, RULE, ASSUME, SUBS)
