"""C12 - derived attributes are total and consistent on valid numbers."""
import datetime

from hypothesis import strategies as st

from vf import core, gen

LEVEL = 'exploration'
RULE = ('per (module, getter) of a frozen table: corpus+synthesised valid numbers (canonical form and accepted presentations) x optional '
        'getter parameters x frozen clock; oracle: no exception other than ValidationError, result of the documented kind, birth date '
        'agrees with the digits of the number per a frozen layout table and with get_birth_year/month, gender in M/F, split() parts '
        'join to the canonical number; non-trivial = getter executed on an accepted number; distinct by (module, getter, number, options, clock)')
ASSUME = ['century is not re-derived (it would copy the module); only YY/MM/DD digit agreement is asserted',
          'getters may raise ValidationError (statement) e.g. mac.get_manufacturer for an unknown OUI']

OMO = dict((c, i) for i, c in enumerate('LMNPQRSTUV'))


def _it_digits(s):
    return int(''.join(str(OMO[c]) if c in OMO else c for c in s))


# module -> (yy slice or None, full-year slice or None, mm, dd, fM, fD, applies(v))
def _sl(a, b):
    return slice(a, b)


ident = lambda x: x  # noqa: E731
DATE_LAYOUT = {
    'be.nn': (_sl(0, 2), None, _sl(2, 4), _sl(4, 6), lambda m: m % 20, ident, None),
    'be.bis': (_sl(0, 2), None, _sl(2, 4), _sl(4, 6), lambda m: m % 20, ident, None),
    'be.ssn': (_sl(0, 2), None, _sl(2, 4), _sl(4, 6), lambda m: m % 20, ident, None),
    'bg.egn': (_sl(0, 2), None, _sl(2, 4), _sl(4, 6), lambda m: m % 20, ident, None),
    'cn.ric': (None, _sl(6, 10), _sl(10, 12), _sl(12, 14), ident, ident, None),
    'cu.ni': (_sl(0, 2), None, _sl(2, 4), _sl(4, 6), ident, ident, None),
    'cz.rc': (_sl(0, 2), None, _sl(2, 4), _sl(4, 6), lambda m: m % 50 % 20, ident, None),
    'dk.cpr': (_sl(4, 6), None, _sl(2, 4), _sl(0, 2), ident, ident, None),
    'ee.ik': (_sl(1, 3), None, _sl(3, 5), _sl(5, 7), ident, ident, None),
    'lt.asmens': (_sl(1, 3), None, _sl(3, 5), _sl(5, 7), ident, ident, lambda v: v[0] != '9'),
    'gr.amka': (_sl(4, 6), None, _sl(2, 4), _sl(0, 2), ident, ident, None),
    'id.nik': (_sl(10, 12), None, _sl(8, 10), _sl(6, 8), ident, lambda d: d % 40, None),
    'kr.rrn': (_sl(0, 2), None, _sl(2, 4), _sl(4, 6), ident, ident, None),
    'lv.pvn': (_sl(4, 6), None, _sl(2, 4), _sl(0, 2), ident, ident, lambda v: len(v) == 11 and v[0] <= '3'),
    'mx.curp': (_sl(4, 6), None, _sl(6, 8), _sl(8, 10), ident, ident, None),
    'my.nric': (_sl(0, 2), None, _sl(2, 4), _sl(4, 6), ident, ident, None),
    'no.fodselsnummer': (_sl(4, 6), None, _sl(2, 4), _sl(0, 2), lambda m: m - 40 if m > 40 else m, lambda d: d - 40 if d > 40 else d, None),
    'pl.pesel': (_sl(0, 2), None, _sl(2, 4), _sl(4, 6), lambda m: m % 20, ident, None),
    'ro.cnp': (_sl(1, 3), None, _sl(3, 5), _sl(5, 7), ident, ident, None),
    'si.emso': (None, None, _sl(2, 4), _sl(0, 2), ident, ident, None),
    'za.idnr': (_sl(0, 2), None, _sl(2, 4), _sl(4, 6), ident, ident, None),
}

def _dk_century(v):
    yy, c = int(v[4:6]), v[6]
    if c in '0123':
        return 1900
    if c in '49':
        return 2000 if yy <= 36 else 1900
    return 2000 if yy <= 57 else 1800


def _no_century(v):
    yy, ind = int(v[4:6]), int(v[6:9])
    if ind < 500:
        return 1900
    if ind < 750 and yy >= 54:
        return 1800
    if yy < 40:
        return 2000
    if ind >= 900:
        return 1900
    return None


def _cz_century(v):
    yy = int(v[0:2])
    if len(v) == 9:
        return 1800 if yy >= 80 else 1900
    return 2000 if yy < 54 else 1900


_GENDER_CENTURY = {'1': 1800, '2': 1800, '3': 1900, '4': 1900, '5': 2000, '6': 2000, '7': 2100, '8': 2100}
# how each format encodes the century of birth (from the national specifications the module docstrings cite), frozen
CENTURY = {
    'pl.pesel': lambda v: {0: 1900, 1: 2000, 2: 2100, 3: 2200, 4: 1800}.get(int(v[2:4]) // 20),
    'bg.egn': lambda v: 2000 if int(v[2:4]) > 40 else 1800 if int(v[2:4]) > 20 else 1900,
    'ee.ik': lambda v: _GENDER_CENTURY.get(v[0]),
    'lt.asmens': lambda v: _GENDER_CENTURY.get(v[0]),
    'ro.cnp': lambda v: {'1': 1900, '2': 1900, '3': 1800, '4': 1800, '5': 2000, '6': 2000}.get(v[0]),
    'lv.pvn': lambda v: 1800 + int(v[6]) * 100,
    'kr.rrn': lambda v: 1900 if v[6] in '1256' else 2000 if v[6] in '3478' else 1800,
    'mx.curp': lambda v: 1900 if v[16].isdigit() else 2000,
    'dk.cpr': _dk_century,
    'no.fodselsnummer': _no_century,
    'cz.rc': _cz_century,
    'sk.rc': _cz_century,
}

# (module, getter, kind, kwargs strategy name)
GETTERS = []
for _m in ['be.bis', 'be.nn', 'be.ssn']:
    GETTERS += [(_m, 'get_birth_date', 'date?'), (_m, 'get_birth_month', 'month?'), (_m, 'get_birth_year', 'year?'),
                (_m, 'get_gender', 'gender?' if _m != 'be.nn' else 'gender')]
GETTERS += [('be.ssn', 'guess_type', 'name:nn,bis')]
for _m in ['bg.egn', 'cn.ric', 'cu.ni', 'cz.rc', 'dk.cpr', 'ee.ik', 'gr.amka', 'id.nik', 'it.codicefiscale', 'kr.rrn', 'lt.asmens',
           'lv.pvn', 'mx.curp', 'my.nric', 'no.fodselsnummer', 'pl.pesel', 'ro.cnp', 'se.personnummer', 'si.emso', 'za.idnr']:
    GETTERS.append((_m, 'get_birth_date', 'date'))
for _m in ['cu.ni', 'ee.ik', 'gr.amka', 'it.codicefiscale', 'mx.curp', 'no.fodselsnummer', 'pk.cnic', 'pl.pesel', 'se.personnummer',
           'si.emso', 'za.idnr']:
    GETTERS.append((_m, 'get_gender', 'gender'))
GETTERS += [('cn.ric', 'get_birth_place', 'dict'), ('my.nric', 'get_birth_place', 'dict'), ('pk.cnic', 'get_province', 'str'),
            ('ro.cnp', 'get_county', 'str'), ('si.emso', 'get_region', 'str'), ('za.idnr', 'get_citizenship', 'str'),
            ('us.ein', 'get_campus', 'str'), ('eu.nace', 'get_label', 'str'),
            ('at.postleitzahl', 'info', 'dict'), ('at.tin', 'info', 'dict'), ('be.iban', 'info', 'dict'), ('cfi', 'info', 'dict'),
            ('cz.bankaccount', 'info', 'dict'), ('eu.nace', 'info', 'dict'), ('imsi', 'info', 'dict'), ('in_.gstin', 'info', 'dict'),
            ('in_.pan', 'info', 'dict'), ('nz.bankaccount', 'info', 'dict'),
            ('be.iban', 'to_bic', 'str?'), ('cz.bankaccount', 'to_bic', 'str?'),
            ('es.cif', 'split', 'split'), ('imei', 'split', 'split'), ('imsi', 'split', 'split'), ('isan', 'split', 'split'),
            ('isbn', 'split', 'split'), ('ismn', 'split', 'split13'),
            ('imei', 'imei_type', 'str?'), ('isbn', 'isbn_type', 'str?'), ('ismn', 'ismn_type', 'str?'), ('th.tin', 'tin_type', 'str?'),
            ('us.tin', 'guess_type', 'typelist:ssn,itin,ein,ptin,atin'), ('eu.vat', 'guess_country', 'list'), ('de.stnr', 'guess_regions', 'list'),
            ('mac', 'get_manufacturer', 'str'), ('mac', 'get_oui', 'str'), ('mac', 'get_iab', 'str'), ('mac', 'is_unicast', 'bool'),
            ('mac', 'is_multicast', 'bool'), ('mac', 'is_broadcast', 'bool'), ('mac', 'is_universally_administered', 'bool'),
            ('mac', 'is_locally_administered', 'bool'),
            ('in_.aadhaar', 'mask', 'str'), ('in_.pan', 'mask', 'str'), ('in_.vid', 'mask', 'str')]
OPTS = {('id.nik', 'get_birth_date'): [{}, {'minyear': 1900}, {'minyear': 1990}, {'minyear': 2010}],
        ('it.codicefiscale', 'get_birth_date'): [{}, {'minyear': 1900}, {'minyear': 1990}, {'minyear': 2010}],
        ('kr.rrn', 'get_birth_date'): [{}, {'allow_future': False}, {'allow_future': True}]}


def discovered():
    """Attribute-deriving functions present in the tree but not in the frozen table (added later, or rarely used):
    only totality is asserted for them (kind 'any')."""
    import inspect
    known = set((m, f) for m, f, _ in GETTERS)
    out = []
    for name, m in core.number_modules().items():
        for fn, f in inspect.getmembers(m, inspect.isfunction):
            if fn.startswith('_') or (name, fn) in known:
                continue
            if not (fn.startswith(('get_', 'is_', 'guess_')) or fn in ('info', 'split', 'mask') or fn.endswith('_type')) or fn == 'is_valid':
                continue
            if getattr(f, '__module__', '').startswith('stdnum.util'):
                continue
            try:
                req = [p.name for p in inspect.signature(f).parameters.values() if p.default is p.empty]
            except (TypeError, ValueError):
                continue
            if req == ['number']:
                out.append((name, fn, 'any'))
    return out


def check_kind(kind, r, v):
    """Return None if r is of the documented kind, else a reason."""
    if kind == 'any':
        return None
    opt = kind.endswith('?')
    k = kind.rstrip('?')
    if r is None:
        return None if opt else 'None'
    if k == 'date':
        return None if isinstance(r, datetime.date) and not isinstance(r, datetime.datetime) else 'not-a-date'
    if k == 'gender':
        return None if r in ('M', 'F') and isinstance(r, str) else 'not-M/F'
    if k == 'month':
        return None if type(r) is int and 1 <= r <= 12 else 'month-out-of-range'
    if k == 'year':
        return None if type(r) is int and 1800 <= r <= 2200 else 'year-odd'
    if k == 'dict':
        return None if isinstance(r, dict) else 'not-a-dict'
    if k == 'str':
        return None if isinstance(r, str) else 'not-a-str'
    if k == 'bool':
        return None if isinstance(r, bool) else 'not-a-bool'
    if k == 'list':
        return None if isinstance(r, (list, tuple)) and all(isinstance(x, str) for x in r) else 'not-a-list-of-str'
    if k.startswith('name:'):
        return None if r in k.split(':')[1].split(',') else 'unknown-type-name'
    if k.startswith('typelist:'):
        allowed = k.split(':')[1].split(',')
        return None if isinstance(r, (list, tuple)) and all(x in allowed for x in r) else 'unknown-type-name'
    if k in ('split', 'split13'):
        if not isinstance(r, (list, tuple)) or not all(isinstance(x, str) for x in r):
            return 'not-a-sequence-of-str'
        want = v
        if k == 'split13' and len(v) == 10:
            want = '9790' + v[1:]
        return None if ''.join(r) == want else 'parts-do-not-join-to-number'
    return 'unknown-kind'


def date_agreement(name, v, d):
    lay = DATE_LAYOUT.get(name)
    if name == 'sk.rc':
        lay = DATE_LAYOUT['cz.rc']
    if name == 'se.personnummer':
        digits = ''.join(c for c in v if c.isdigit())
        if len(digits) == 12:
            ok = d.year == int(digits[0:4]) and d.month == int(digits[4:6]) and d.day == int(digits[6:8])
        else:
            ok = d.year % 100 == int(digits[0:2]) and d.month == int(digits[2:4]) and d.day == int(digits[4:6])
            if ok:
                # documented rule: '-' = the person is under 100 on the system date, '+' = 100 or older
                ty = core.get_today().year
                cen = ty // 100 - (1 if int(digits[0:2]) > ty % 100 else 0) - (1 if '+' in v else 0)
                if d.year != cen * 100 + int(digits[0:2]):
                    return 'century-disagrees-with-separator-and-system-date'
        return None if ok else 'date-disagrees-with-digits'
    if name == 'it.codicefiscale':
        if len(v) != 16:
            return None
        yy = _it_digits(v[6:8])
        mm = 'ABCDEHLMPRST'.index(v[8]) + 1
        dd = _it_digits(v[9:11]) % 40
        return None if (d.year % 100, d.month, d.day) == (yy, mm, dd) else 'date-disagrees-with-digits'
    if lay is None:
        return None
    yy, full, mm, dd, fm, fd, applies = lay
    if applies and not applies(v):
        return None
    try:
        if name == 'si.emso':
            if d.year % 1000 != int(v[4:7]):
                return 'date-disagrees-with-digits'
        elif full is not None:
            if d.year != int(v[full]):
                return 'date-disagrees-with-digits'
        elif d.year % 100 != int(v[yy]):
            return 'date-disagrees-with-digits'
        if d.month != fm(int(v[mm])) or d.day != fd(int(v[dd])):
            return 'date-disagrees-with-digits'
        if name == 'si.emso' and d.year != (2000 if int(v[4:7]) < 800 else 1000) + int(v[4:7]):
            return 'century-disagrees-with-digits'
        cen = CENTURY.get(name)
        if cen is not None:
            want = cen(v)
            if want is not None and d.year - d.year % 100 != want:
                return 'century-disagrees-with-digits'
    except ValueError:
        return 'layout-table-does-not-fit'
    return None


def prop(case, res):
    name, fn = case['mod'], case['fn']
    m = core.mod(name)
    x = core.dec(case['x'])
    kw = case.get('kw') or {}
    kind = case['kind']
    core.set_today(case.get('clock'))
    try:
        res.evals += 1
        o = core.out(m.validate, x)
        if o[0] != 'ok' or not isinstance(o[1], str):
            res.hist['not-accepted'] += 1
            return
        v = o[1]
        f = getattr(m, fn, None)
        if f is None:
            res.hist['getter-not-present-in-this-tree:%s.%s' % (name, fn)] += 1
            return
        res.nt(name, fn, x, sorted(kw.items()), case.get('clock'))
        res.hist['getter-calls'] += 1
        r = core.out(f, x, **kw)
        if r[0] == 'EXC':
            res.violation('%s.%s|raises:%s|%s' % (name, fn, r[1], r[2]), 'c12', case, {'number': v, 'out': [str(t) for t in r]})
            return
        if r[0] == 'verr':
            res.hist['getter-raised-ValidationError'] += 1
            return
        bad = check_kind(kind, r[1], v)
        if bad:
            res.violation('%s.%s|kind:%s' % (name, fn, bad), 'c12', case, {'number': v, 'returned': repr(r[1])[:120]})
            return
        if kind.rstrip('?') == 'date' and r[1] is not None:
            bad = date_agreement(name, v, r[1])
            if bad:
                res.violation('%s.%s|%s' % (name, fn, bad), 'c12', case, {'number': v, 'date': str(r[1])})
            for g, attr in (('get_birth_year', 'year'), ('get_birth_month', 'month')):
                if hasattr(m, g):
                    r2 = core.out(getattr(m, g), x)
                    if r2[0] == 'ok' and r2[1] is not None and r2[1] != getattr(r[1], attr):
                        res.violation('%s.%s|disagrees-with-date' % (name, g), 'c12', case, {'number': v, 'date': str(r[1]), g: r2[1]})
        if res.hist['getter-calls'] % 23 == 1:
            res.sample({'mod': name, 'getter': fn, 'number': x, 'kw': kw, 'clock': case.get('clock'), 'result': repr(r[1])[:80]})
    finally:
        core.set_today(None)


SUBS = {'c12': prop}


def shard(a):
    res = core.Result()
    name, fn, kind = a['g']
    valid = gen.valid_numbers(name)
    raw = st.sampled_from(gen.seeds(name))
    parts = [valid, valid, raw, gen.decorations(name, valid)]
    lay = DATE_LAYOUT.get(name)
    if lay is not None and lay[0] is not None:
        dv = gen.date_variants(name, (lay[0], lay[2], lay[3]))
        parts += [dv, dv]
    extra = gen.extra_valid(name)
    if extra is not None:
        parts.append(extra)
    x = st.one_of(*parts)
    strat = st.fixed_dictionaries({'mod': st.just(name), 'fn': st.just(fn), 'kind': st.just(kind), 'x': x.map(core.enc),
                                   'kw': st.sampled_from(OPTS.get((name, fn), [{}])), 'clock': gen.clock_strategy(name)})
    core.drive(prop, strat, a['n'], (a['seed'], 'C12', name, fn), res, shrink_skip=a['known'])
    # characters of either class at every position, every character at the edges, digits on range-table boundaries
    clocks = [None] + (['1990-01-01', '2000-02-29', '2031-01-01', '2100-12-31'] if name in gen.CLOCK_MODULES else [])
    for v in gen.edge_pool(name) + gen.boundary_pool(name) + (gen.pair_pool(name) if lay is not None or kind.startswith('date') else []):
        for clk in clocks:
            prop({'mod': name, 'fn': fn, 'kind': kind, 'x': v, 'kw': {}, 'clock': clk}, res)
    res.notes['calls_per_getter'] = {'%s.%s' % (name, fn): res.hist['getter-calls']}
    return res


def run(ctx):
    core.number_modules()
    extra = discovered()
    args = [{'shard': '%s.%s' % g[:2], 'g': g, 'n': ctx.q(250, 6000), 'seed': ctx.seed, 'known': ctx.known_buckets} for g in GETTERS + extra]
    res = core.run_shards(shard, args)
    res.notes['getters'] = len(GETTERS)
    res.notes['getters_discovered_outside_the_table'] = ['%s.%s' % g[:2] for g in extra]
    res.notes['getters_with_few_calls'] = [k for k, v in res.notes.get('calls_per_getter', {}).items() if v < 50]
    return core.finish(ctx, res, LEVEL, RULE, ASSUME, SUBS)
