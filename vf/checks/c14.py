"""C14 - character clean-up never changes the value of a number."""
import sys
import unicodedata

from hypothesis import strategies as st

from vf import core, gen

LEVEL = 'exploration'
RULE = ('(a) every code point 0..0x10FFFF through clean() against the Unicode database (exhaustive); (b) generated strings x '
        'deletechars sets against a character-wise reference; (c) per module: valid numbers respelt with every look-alike '
        'the table maps to a character occurring in the (formatted) number; non-trivial = a mapped code point is involved; '
        'distinct by (part, code point | string, deletechars | module, number, substitution)')
ASSUME = ['part (c) excludes the 8 generic algorithm modules (no clean-up step; caller-supplied alphabets)',
          'unicodedata of the running interpreter is the Unicode database oracle',
          'part (c) takes the list of look-alike code points from the tree (their targets are verified by part (a))']


def clean1_ref(ch):
    """What clean() may do with one character according to the statement (None = must stay)."""
    return None


def prop_cp(case, res):
    """Single code point (or range lo..hi) against the Unicode database."""
    from stdnum.util import clean
    lo, hi = case['lo'], case['hi']
    for cp in range(lo, hi + 1):
        ch = chr(cp)
        res.evals += 1
        o = core.out(clean, ch)
        if o[0] != 'ok':
            res.violation('cp|clean-raises|U+%04X' % cp, 'cp', {'lo': cp, 'hi': cp}, {'out': [str(t) for t in o]})
            continue
        r = o[1]
        if not isinstance(r, str) or len(r) != 1:
            res.violation('cp|not-one-char|U+%04X' % cp, 'cp', {'lo': cp, 'hi': cp}, {'result': repr(r)})
            continue
        if r == ch:
            continue
        res.nontrivial_extra += 1
        res.hist['mapped->' + r] += 1
        bad = None
        if ord(r) > 127:
            bad = 'non-ascii-target'
        elif ch.isascii() and (ch.isalnum()):
            bad = 'ascii-alnum-altered'
        elif r.isdigit():
            if unicodedata.decimal(ch, None) != int(r):
                bad = 'digit-value-mismatch'
        elif r.isalpha():
            bad = 'letter-produced'
        elif r == ' ':
            if unicodedata.category(ch) != 'Zs':
                bad = 'non-Zs-to-space'
        if bad:
            res.violation('cp|%s|U+%04X->%r' % (bad, cp, r), 'cp', {'lo': cp, 'hi': cp},
                          {'char': unicodedata.name(ch, '?'), 'target': r, 'decimal': unicodedata.decimal(ch, None),
                           'category': unicodedata.category(ch)})


def prop_str(case, res):
    from stdnum.util import clean
    s, d = core.dec(case['s']), core.dec(case['d'])
    res.evals += 1
    o = core.out(clean, s, d)
    if o[0] != 'ok':
        res.violation('str|clean-raises:%s' % o[1], 'str', case, {'out': [str(t) for t in o]})
        return
    r = o[1]
    per = [clean(c) for c in s]
    if any(p != c for p, c in zip(per, s)):
        res.nt('str', s, d)
    exp = ''.join(p for p in per if p not in d)
    if r != exp:
        res.violation('str|order-or-count', 'str', case, {'result': r, 'expected': exp})
    if any(c in d for c in r):
        res.violation('str|deletechar-survives', 'str', case, {'result': r})
    r2 = core.out(clean, r, d)
    if r2 != ('ok', r):
        res.violation('str|not-idempotent', 'str', case, {'once': r, 'twice': [str(t) for t in r2]})
    if res.evals % 97 == 1:
        res.sample({'s': s, 'deletechars': d, 'clean': r})


def prop_respell(case, res):
    name = case['mod']
    m = core.number_modules()[name]
    a, b = core.dec(case['ascii']), core.dec(case['respelt'])
    res.evals += 1
    oa, ob = core.out(m.validate, a), core.out(m.validate, b)
    if oa[0] != 'ok':
        return
    res.nt(name, a, b)
    for ch in set(b) - set(a):
        res.hist['respell U+%04X' % ord(ch)] += 1
    if ob[0] == 'EXC':
        return  # C01
    if ob != oa:
        from stdnum.util import clean
        diff = sorted(set(clean(c) for c in set(b) - set(a)))
        res.violation('respell|%s|lookalikes-of:%s' % (name, ''.join(diff)[:10]), 'respell', case,
                      {'ascii': [str(t) for t in oa], 'respelt': [str(t) for t in ob]})
    if res.evals % 211 == 1:
        res.sample({'mod': name, 'ascii': a, 'respelt': b, 'validate': oa[1]})


def prop_translate(case, res):
    """A foreign numeric character that a module accepts in place of a digit must carry exactly that decimal value
    (modules with their own digit clean-up on top of util.clean, e.g. Arabic-Indic digits in eg.tn)."""
    name = case['mod']
    m = core.number_modules()[name]
    a, i, ch = case['ascii'], case['pos'], core.dec(case['ch'])
    x = a[:i] + ch + a[i + 1:]
    res.evals += 1
    o = core.out(m.validate, x)
    if o[0] != 'ok' or not isinstance(o[1], str) or not o[1].isascii():
        return  # rejected, or passed through untranslated (a C15 matter)
    res.nt(name, a, i, ch)
    res.hist['translated-by-module:' + name] += 1
    d = unicodedata.decimal(ch, None)
    if d is None:
        res.violation('translate|%s|non-decimal-character-accepted-as-digit' % name, 'translate', case,
                      {'input': x, 'returned': o[1], 'char': 'U+%04X %s' % (ord(ch), unicodedata.name(ch, '?')), 'category': unicodedata.category(ch)})
        return
    exp = core.out(m.validate, a[:i] + str(d) + a[i + 1:])
    if exp != o:
        res.violation('translate|%s|translated-to-wrong-digit' % name, 'translate', case,
                      {'input': x, 'returned': o[1], 'char': 'U+%04X' % ord(ch), 'decimal': d, 'ascii-spelling-gives': [str(t) for t in exp]})


def shard_translate(a):
    import random
    from vf.checks import c15
    res = core.Result()
    name = a['mod']
    rnd = random.Random(core.subseed(a['seed'], 'C14', 'translate', name))
    table = gen.lookalikes()
    nondecimal = [c for v, cs in c15.DIGITS.items() for c in cs if unicodedata.decimal(c, None) is None and c not in table]
    for v in gen.pool(name)[:a['nnum']]:
        for i, c in enumerate(v):
            if not (c.isdigit() and c.isascii()):
                continue
            same = [x for x in c15.DIGITS.get(int(c), []) if x not in table]
            other = [x for x in c15.DIGITS.get((int(c) + 3) % 10, []) if x not in table]
            picks = rnd.sample(same, min(len(same), a['k'])) + rnd.sample(other, min(len(other), 2)) + rnd.sample(nondecimal, min(len(nondecimal), a['k']))
            for ch in picks:
                prop_translate({'mod': name, 'ascii': v, 'pos': i, 'ch': core.enc(ch)}, res)
    return res


# the generic algorithm modules work on caller-supplied alphabets and do not clean their input
GENERIC = ['luhn', 'verhoeff', 'damm', 'iso7064.mod_11_10', 'iso7064.mod_11_2', 'iso7064.mod_37_2', 'iso7064.mod_37_36',
           'iso7064.mod_97_10']

SUBS = {'cp': prop_cp, 'str': prop_str, 'respell': prop_respell, 'translate': prop_translate}


def shard_cp(a):
    res = core.Result()
    prop_cp({'lo': a['lo'], 'hi': a['hi']}, res)
    return res


def shard_str(a):
    res = core.Result()
    table = sorted(gen.lookalikes())
    mapped = st.sampled_from(table)
    ch = st.one_of(mapped, mapped, st.sampled_from(list('0123456789ABCXYZabc -./:,*\'')), st.characters())
    punct = list(" -./:,*_'()+") + table
    s = st.text(alphabet=ch, max_size=40)
    d = st.one_of(st.sampled_from(['', ' ', ' -', ' -.', ' -./', ' -./,', ' :', "'", ' -.:/,*']),
                  st.text(alphabet=st.sampled_from(punct), max_size=6))
    strat = st.fixed_dictionaries({'s': s.map(core.enc), 'd': d.map(core.enc)})
    core.drive(prop_str, strat, a['n'], (a['seed'], 'C14', 'str', a['i']), res, shrink_skip=a['known'])
    return res


def shard_respell(a):
    """For a module: every mapped code point whose target occurs in a presentation, substituted for it."""
    res = core.Result()
    name = a['mod']
    m = core.number_modules()[name]
    table = gen.lookalikes()
    by_target = {}
    for k, v in table.items():
        if k != v:
            by_target.setdefault(v, []).append(k)
    pres = []
    for v in gen.pool(name)[:a['nnum']]:
        pres.append(v)
        if hasattr(m, 'format'):
            f = core.out(m.format, v)
            if f[0] == 'ok' and isinstance(f[1], str) and core.out(m.validate, f[1]) == ('ok', v):
                pres.append(f[1])
    for x in gen.accepted_seeds(name)[:a['nnum']]:
        pres.append(x)
    # abbreviated spellings that the module pads itself (groups written without their leading zeros): accepted ones are
    # presentations too, and the separators in them matter for the padding
    import re
    for x in list(pres):
        parts = re.split(r'([-./: ])', x)
        if len(parts) < 3:
            continue
        cands = [''.join(p.lstrip('0') or '0' if i % 2 == 0 else p for i, p in enumerate(parts))]
        for j in range(0, len(parts), 2):
            cands.append(''.join((p.lstrip('0') or '0') if i == j else p for i, p in enumerate(parts)))
        for y in cands:
            if y != x and y not in pres and core.out(m.validate, y) == core.out(m.validate, x) and core.out(m.validate, x)[0] == 'ok':
                pres.append(y)
                res.hist['abbreviated-presentations'] += 1
    seen = set()
    import random
    rnd = random.Random(core.subseed(a['seed'], 'C14', name))
    for x in pres:
        if x in seen:
            continue
        seen.add(x)
        for t in sorted(set(x)):
            for k in by_target.get(t, []):
                # all occurrences, and one occurrence
                pos = [i for i, c in enumerate(x) if c == t]
                one = rnd.choice(pos)
                for y in {x.replace(t, k), x[:one] + k + x[one + 1:]}:
                    prop_respell({'mod': name, 'ascii': x, 'respelt': core.enc(y)}, res)
    return res


def run(ctx):
    mods = core.number_modules()
    step = 0x110000 // 32
    args = [{'shard': 'cp%d' % i, 'lo': i * step, 'hi': min(0x10FFFF, (i + 1) * step - 1)} for i in range(32)]
    res = core.run_shards(shard_cp, args)
    res.notes['code_points_enumerated'] = res.evals
    res2 = core.run_shards(shard_str, [{'shard': 'str%d' % i, 'i': i, 'n': ctx.q(1500, 40000), 'seed': ctx.seed,
                                        'known': ctx.known_buckets} for i in range(16)])
    res.merge(res2)
    res3 = core.run_shards(shard_respell, [{'shard': 'respell:' + n, 'mod': n, 'seed': ctx.seed, 'nnum': ctx.q(6, 60)}
                                           for n in mods if n not in GENERIC])
    res.merge(res3)
    res4 = core.run_shards(shard_translate, [{'shard': 'translate:' + n, 'mod': n, 'seed': ctx.seed, 'nnum': ctx.q(2, 12), 'k': ctx.q(6, 40)}
                                             for n in mods if n not in GENERIC])
    res.merge(res4)
    res.notes['modules_translating_foreign_digits_themselves'] = sorted(k.split(':', 1)[1] for k in res.hist if str(k).startswith('translated-by-module:'))
    for k in [k for k in res.hist if str(k).startswith('translated-by-module:')]:
        del res.hist[k]
    nmapped = len([k for k, v in gen.lookalikes().items() if k != v])
    covered = len([k for k in res.hist if str(k).startswith('respell U+')])
    res.notes['table_entries_nonidentity'] = nmapped
    res.notes['table_entries_exercised_by_respelling'] = covered
    # keep the histogram readable
    for k in [k for k in res.hist if str(k).startswith('respell U+')]:
        del res.hist[k]
    return core.finish(ctx, res, LEVEL, RULE, ASSUME, SUBS, extra={'exhaustive': True, 'exhaustive_part': 'all 1,114,112 code points (part a)'})
