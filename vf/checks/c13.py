"""C13 - results are independent of call history, ordering, aliasing and threads."""
import json
import os
import random
import string
import shutil
import subprocess
import sys
import tempfile
from multiprocessing.pool import ThreadPool

from vf import core, gen
from vf.checks import c12

LEVEL = 'exploration'
RULE = ('a pool of K public calls (validate/is_valid/compact/format/getters/conversions/get_cc_module/registry lookups over all modules '
        'and registries) whose pristine outcome is computed in a fresh interpreter per call; (1) Hypothesis rule-based state machines in '
        'initially fresh worker processes: rules call(i), mutate_last (deep in-place vandalism of the returned container), '
        'mutate_and_repeat, neighbour_call; invariant: outcome == pristine outcome; failing process traces are minimised by delta '
        'debugging with fresh-process replays; (2) thread trials in fresh processes: 2..16 threads start on a barrier with overlapping '
        'call lists (concurrent first use of registries / country modules, switch interval 1e-6); (0) in-process repetition: every '
        'validate/is_valid/compact/format/getter call on corpus, edge and generator-completed numbers is made twice in a row and '
        'validate once more at the end, outcomes must be equal; non-trivial = sequences containing a '
        'mutation followed by a call, thread trials where first uses raced; distinct by (worker seed, sequence index) and (trial)')
ASSUME = ['thread schedules are not controlled by the harness (stress only); the history/aliasing part is a model-based search',
          'same PYTHONHASHSEED (0) and frozen clock in every process except in the hash-seed part, which varies PYTHONHASHSEED only', 'eu.vat.guess_country compared as a set']
WORKER = [sys.executable, '-m', 'vf.c13worker']


def run_job(job, timeout=600, hashseed='0'):
    env = dict(os.environ, PYTHONHASHSEED=str(hashseed), VERIF_REPO=core.REPO)
    p = subprocess.run(WORKER, input=json.dumps(job).encode(), stdout=subprocess.PIPE, stderr=subprocess.PIPE, cwd=core.VERIF, env=env, timeout=timeout)
    out = p.stdout.decode('utf-8', 'replace')
    if '@@RESULT@@' not in out:
        raise core.HarnessError('c13 worker failed: rc=%s %s' % (p.returncode, p.stderr.decode('utf-8', 'replace')[-800:]))
    return json.loads(out.split('@@RESULT@@')[1])


def call(m, f, *a, **k):
    return {'op': 'call', 'm': m, 'f': f, 'a': [core.enc(x) for x in a], 'k': dict((kk, core.enc(v)) for kk, v in k.items())}


def build_pool(seed, k):
    """Deterministic pool of calls, grouped by module."""
    rnd = random.Random(core.subseed(seed, 'C13', 'pool'))
    mods = core.number_modules()
    fixed, optional = [], []
    from vf.checks.c10 import registries, _parsed
    from vf.refs import numdbref
    for name, _ in registries():
        roots, _p = _parsed(name)
        alpha = numdbref.alphabet(roots) or '0'
        es = [e for e in roots if e.ranges]
        for e in rnd.sample(es, min(3, len(es))):
            w = e.ranges[0][0]
            node = e
            while node.children:
                node = rnd.choice(node.children)
                if not node.ranges:
                    break
                w += node.ranges[0][0]
            fixed.append(call('numdb', 'info', name, w))
            fixed.append(call('numdb', 'info', name, w + ''.join(rnd.choice(alpha) for _ in range(3))))
    for cc in ['nl', 'NL', 'be', 'es', 'no', 'me', 'gb', 'gr', 'el', 'in', 'is', 'if', 'xx', 'de', 'si', 'us', 'ch', 'mc']:
        for nm in ['vat', 'iban', 'personalid', 'businessid', 'postal_code', 'nonexistent']:
            optional.append(call('util', 'get_cc_module', cc, nm))
    for (mn, fn, kind) in c12.GETTERS:
        p = gen.pool(mn)
        for v in rnd.sample(p, min(2, len(p))):
            fixed.append(call(mn, fn, v))
    for mn, fns in [('be.iban', ['info', 'to_bic']), ('cz.bankaccount', ['info', 'to_bic']), ('nz.bankaccount', ['info']), ('isbn', ['split', 'format']),
                    ('imsi', ['info', 'split']), ('mac', ['get_manufacturer', 'get_oui']), ('cfi', ['info']), ('gs1_128', ['info', 'validate'])]:
        p = gen.pool(mn)
        for v in rnd.sample(p, min(4, len(p))):
            for fn in fns:
                fixed.append(call(mn, fn, v))
    fixed.append(call('gs1_128', 'encode', {'01': '38425876095074', '17': core._real_datetime.date(2018, 11, 19), '37': 1}))
    # element strings whose decoded values are equal (==, same hash) but spelt with a different number of decimals: a memo keyed
    # on the decoded value answers one with the other's encoding
    for fam in ('310', '392'):
        for nd in range(0, 4):
            body = str(17 * 10 ** nd).zfill(6) if fam == '310' else str(17 * 10 ** nd)
            fixed.append(call('gs1_128', 'validate', '%s%d%s' % (fam, nd, body)))
            fixed.append(call('gs1_128', 'info', '%s%d%s' % (fam, nd, body)))
    for mn in ['iban', 'eu.vat', 'vatin']:
        for v in gen.pool(mn)[:40]:
            fixed.append(call(mn, 'validate', v))
    for cc, mn in [('AT', 'at.uid'), ('NL', 'nl.btw'), ('EL', 'gr.vat'), ('XI', 'gb.vat'), ('SI', 'si.ddv'), ('RO', 'ro.cf')]:
        for v in gen.pool(mn)[:2]:
            v2 = v[2:] if v[:2] == cc else v
            fixed.append(call('eu.vat', 'validate', cc + v2))
            fixed.append(call('vatin', 'validate', cc + v2))
            fixed.append(call('eu.vat', 'guess_country', v2))
    # sibling entries of nested registries: two numbers that share the first registry level and differ below it (a cache
    # keyed on the first level only answers the second with the first one's data)
    def siblings(regname, build, consumers, nparents=8):
        roots, _p = _parsed(regname)
        parents = [e for e in roots if e.ranges and len([k for k in e.children if k.ranges]) >= 2]
        for e in rnd.sample(parents, min(nparents, len(parents))):
            kids = rnd.sample([k for k in e.children if k.ranges], 2)
            for k in kids:
                num = build(e.ranges[0][0], k.ranges[0][0])
                for mn, fn in consumers:
                    fixed.append(call(mn, fn, num))
    siblings('oui', lambda a, b: ':'.join(((a + b + '0' * 12)[:12])[i:i + 2] for i in range(0, 12, 2)).lower(),
             [('mac', 'get_manufacturer'), ('mac', 'get_oui'), ('mac', 'get_iab'), ('mac', 'validate')])
    siblings('imsi', lambda a, b: (a + b + '0' * 15)[:15], [('imsi', 'info'), ('imsi', 'split')])
    siblings('nz/banks', lambda a, b: (a + b + '0' * 16)[:16], [('nz.bankaccount', 'info')])
    siblings('isbn', lambda a, b: (a + b + '1' * 13)[:13], [('isbn', 'split'), ('isbn', 'format')])
    siblings('cn/loc', lambda a, b: a, [('cn.ric', 'get_birth_place')], nparents=0)
    # clock readers: the same call under different system dates (a date captured at import time or cached from an earlier
    # call answers later calls with a stale "today"); the worker sets the date before resolving the function
    for mn in gen.CLOCK_MODULES:
        if mn not in mods:
            continue
        nums = gen.pool(mn)[:2] + [w for w in gen.class_sweep(mn, nbase=1, classes=(string.digits,)) if w][:25]
        # dates of birth on either side of the three system dates used below
        lay = c12.DATE_LAYOUT.get(mn)
        sl = (slice(0, 2), slice(2, 4), slice(4, 6)) if mn == 'se.personnummer' else (lay[0], lay[2], lay[3]) if lay and lay[0] is not None else None
        dated = gen.leap_numbers(mn, sl, dates=(('85', '03', '04'), ('95', '06', '15'), ('25', '06', '15'), ('50', '01', '02'), ('99', '12', '31'))) if sl else []
        for v in dated[:10] + rnd.sample(nums, min(8, len(nums))):
            for ol in gen.option_lists(mn):
                for clk in ('1990-01-01', '2031-01-01', '2100-12-31'):
                    c = call(mn, 'validate', v, **gen.dec_opts(ol))
                    c['clock'] = clk
                    fixed.append(c)
    # dispatchers: alias and non-member prefixes that must keep being rejected / accepted whatever was cached before
    for cc, mn in [('GB', 'gb.vat'), ('XI', 'gb.vat'), ('UK', 'gb.vat'), ('EL', 'gr.vat'), ('GR', 'gr.vat'), ('NO', 'no.mva'), ('CH', 'ch.vat'),
                   ('US', 'us.ein'), ('EU', 'eu.oss'), ('IM', 'eu.oss'), ('XX', 'nl.btw'), ('IS', 'is_.vsk'), ('IN', 'in_.gstin')]:
        for v in gen.pool(mn)[:2]:
            v2 = v[2:] if v[:2] == cc else v
            for wm in ('eu.vat', 'vatin'):
                fixed.append(call(wm, 'validate', cc + v2))
                fixed.append(call(wm, 'is_valid', cc.lower() + ' ' + v2))
    for cc in ['GB', 'NL', 'XX', 'NO', 'ME', 'BE', 'ES', 'DE']:
        for v in [x for x in gen.pool('iban') if x[:2] in ('NL', 'NO', 'BE', 'ES', 'ME', 'GB', 'DE')][:6]:
            fixed.append(call('iban', 'validate', cc + v[2:]))
    # IBANs that pass the generic rules but not the national ones, next to calls of the national module itself (whether the
    # national check runs must not depend on what was imported or cached before)
    for nat in ('be.iban', 'es.iban', 'no.iban', 'me.iban'):
        for v in gen.pool(nat)[:3]:
            i = len(v) - 3
            w = v[:i] + str((int(v[i]) + 1) % 10) + v[i + 1:]
            val = int(''.join(str(int(c, 36)) for c in w[4:] + w[:2] + '00')) % 97
            w = w[:2] + '%02d' % (98 - val) + w[4:]
            fixed.append(call('iban', 'validate', w))
            fixed.append(call('iban', 'is_valid', w))
            fixed.append(call(nat, 'validate', w))
            fixed.append(call(nat, 'validate', v))
    for name, m in mods.items():
        p = gen.pool(name)
        if not p:
            continue
        vs = rnd.sample(p, min(2, len(p)))
        bad = gen.near_misses(name)[:1] + [vs[0][:-1] + ('0' if vs[0][-1] != '0' else '1')]
        for v in vs:
            optional.append(call(name, 'validate', v))
            optional.append(call(name, 'is_valid', v))
            if hasattr(m, 'compact'):
                optional.append(call(name, 'compact', ' ' + v.lower()))
            if hasattr(m, 'format'):
                optional.append(call(name, 'format', v))
        for b in bad:
            optional.append(call(name, 'validate', b))
    rnd.shuffle(optional)
    build_pool.full = fixed + optional
    pool = fixed + optional[:max(0, k - len(fixed))]
    pool.sort(key=lambda s: (s['m'], s['f']))
    return pool


def ddmin(steps, fails):
    """Minimise a failing step list (last step is the failing call) with fresh-process replays."""
    head, last = steps[:-1], steps[-1]
    n = 2
    budget = 60
    while len(head) >= 1 and budget > 0:
        chunk = max(1, len(head) // n)
        reduced = False
        for i in range(0, len(head), chunk):
            trial = head[:i] + head[i + chunk:]
            budget -= 1
            if fails(trial + [last]):
                head = trial
                n = max(n - 1, 2)
                reduced = True
                break
            if budget <= 0:
                break
        if not reduced:
            if chunk == 1:
                break
            n = min(n * 2, len(head))
    return head + [last]


def prop_hist(case, res):
    """Replay a history in a fresh interpreter; every call outcome must equal its fresh-interpreter outcome."""
    steps = case['steps']
    res.evals += 1
    got = run_job({'mode': 'seq', 'steps': steps})['outcomes']
    calls = [s for s in steps if s['op'] == 'call']
    for s, g in zip(calls, got):
        want = run_job({'mode': 'seq', 'steps': [s]})['outcomes'][0]
        if g != want:
            res.violation('history|%s.%s|differs-from-fresh-interpreter' % (s['m'], s['f']), 'hist', case,
                          {'call': s, 'got': g[:200], 'fresh': want[:200], 'history_steps': len(steps)})
            return


def prop_hashseed(case, res):
    """One call in fresh interpreters that differ only in the string hash seed."""
    res.evals += 1
    s = case['call']
    a = run_job({'mode': 'seq', 'steps': [s]}, hashseed=0)['outcomes'][0]
    b = run_job({'mode': 'seq', 'steps': [s]}, hashseed=case['hashseed'])['outcomes'][0]
    if a != b:
        res.violation('hashseed|%s.%s|differs-between-fresh-interpreters' % (s['m'], s['f']), 'hashseed', case,
                      {'call': s, 'PYTHONHASHSEED=0': a[:200], 'PYTHONHASHSEED=%s' % case['hashseed']: b[:200]})


def prop_threads(case, res):
    res.evals += 1
    r = run_job({'mode': 'threads', 'lists': case['lists'], 'switch': 1e-6})
    for lst, outs in zip(case['lists'], r['outcomes']):
        calls = [s for s in lst if s['op'] == 'call']
        if len(outs) != len(calls):
            res.violation('threads|thread-died', 'threads', case, {'out': outs[:2]})
            return r
        for s, g in zip(calls, outs):
            want = run_job({'mode': 'seq', 'steps': [s]})['outcomes'][0]
            if g != want:
                res.violation('threads|%s.%s|differs-from-fresh-interpreter' % (s['m'], s['f']), 'threads', case,
                              {'call': s, 'got': g[:200], 'fresh': want[:200], 'threads': len(case['lists'])})
                return r
    return r


def completed_mutants(name):
    """Numbers of module `name` whose check characters are right by the module's own generator but which need not be valid:
    every adjacent digit pair of one valid number takes all 100 values and the generator's check is put back (table of C05)."""
    from vf.checks import c05
    out = []
    for t in c05.TABLE:
        if t['mod'] != name:
            continue
        m = core.mod(name)
        fn = getattr(m, t['fn'])
        for v in [x for x in gen.pool(name, **t['vopts']) if not t['applies'] or t['applies'](x)][:1]:
            for i in range(len(v) - 1):
                if not (v[i].isdigit() and v[i + 1].isdigit()):
                    continue
                for ab in range(100):
                    w = v[:i] + '%02d' % ab + v[i + 2:]
                    g = core.out(fn, t['arg'](w))
                    if g[0] == 'ok' and isinstance(g[1], str) and g[1]:
                        out.append(c05.put(w, t['sl'], g[1][:1] if t['alt'] == 'two' else g[1]))
    return out


def prop_repeat(case, res):
    """The same call made twice in a row in a fresh interpreter has the same outcome both times."""
    name = case['mod']
    res.evals += 1
    for f in case.get('fns') or ['validate', 'is_valid']:
        c = {'op': 'call', 'm': name, 'f': f, 'a': [case['x']], 'k': {}}
        got = run_job({'mode': 'seq', 'steps': [c, c]})['outcomes']
        if len(got) == 2 and got[0] != got[1]:
            res.violation('repeat|%s.%s|second-call-differs' % (name, f), 'repeat', {'mod': name, 'x': case['x'], 'fns': [f]},
                          {'first': got[0][:160], 'second': got[1][:160]})
            return


def repeat_inputs(name):
    """(module, functions, inputs) for the repetition part; built in a forked helper, used by fresh interpreters."""
    m = core.number_modules()[name]
    fns = [f for f in ['validate', 'is_valid', 'compact', 'format'] if hasattr(m, f)] + [g for mn, g, _k in c12.GETTERS if mn == name]
    xs, seen = [], set()
    # the corpus examples as they are (not only what this process still accepts: the helper process has made calls already)
    for x in gen.seeds(name)[:40] + gen.pool(name)[:60] + gen.near_misses(name)[:20] + gen.edge_pool(name)[:150] + completed_mutants(name):
        if x not in seen:
            seen.add(x)
            xs.append(x)
    return name, fns, xs


def repeat_job(group):
    """One fresh interpreter: for every input of every module of the group each call twice in a row, then the first
    validate calls of each module once more at the end. Returns (calls made, list of differing (call, first, other))."""
    steps, tail = [], []
    for name, fns, xs in group:
        for n, x in enumerate(xs):
            for f in fns:
                c = {'op': 'call', 'm': name, 'f': f, 'a': [core.enc(x)], 'k': {}}
                steps += [c, c]
                if f == 'validate' and n < 40:
                    tail.append((len(steps) - 2, c))
    got = run_job({'mode': 'seq', 'steps': steps + [c for _i, c in tail]}, timeout=3000)['outcomes']
    diffs = []
    for k in range(0, len(steps), 2):
        if got[k] != got[k + 1]:
            diffs.append((steps[k], got[k], got[k + 1], 'second-call-differs'))
    for t, (k, c) in enumerate(tail):
        if got[len(steps) + t] != got[k]:
            diffs.append((c, got[k], got[len(steps) + t], 'later-call-differs'))
    return len(got), diffs


SUBS = {'hist': prop_hist, 'threads': prop_threads, 'repeat': prop_repeat, 'hashseed': prop_hashseed}


def run(ctx):
    core.number_modules()
    res = core.Result()
    # (0) repetition in fresh interpreters: every call repeated at once and again later (a cache that remembers a failed lookup, a table that is
    # consumed by the first call); inputs include numbers with a right check digit that are invalid for another reason
    inputs = core.pmap(repeat_inputs, sorted(core.number_modules()))
    groups = [inputs[i::32] for i in range(32)]
    tp0 = ThreadPool(core.NPROC)
    try:
        for (ncalls, diffs), group in zip(tp0.map(repeat_job, groups), groups):
            res.evals += ncalls
            res.hist['repeat:calls'] += ncalls
            for name, _fns, xs in group:
                res.hist['repeat:inputs'] += len(xs)
                res.nt('repeat', name, len(xs))
                res.nontrivial_extra += len(xs)
            for c, first, other, what in diffs[:20]:
                before = len(res.viol)
                if what == 'second-call-differs':
                    prop_repeat({'mod': c['m'], 'x': c['a'][0], 'fns': [c['f']]}, res)
                if len(res.viol) == before:
                    # needs more history than the call itself: report with what was observed in the batch
                    res.violation('repeat|%s.%s|%s' % (c['m'], c['f'], what), 'repeat', {'mod': c['m'], 'x': c['a'][0], 'fns': [c['f']]},
                                  {'first': first[:160], 'other': other[:160], 'note': 'observed inside a batch of calls in one fresh interpreter'})
    finally:
        tp0.close()
    res.sample({'repeat': 'each call twice in a row in a fresh interpreter', 'modules': len(inputs), 'inputs': sum(len(x[2]) for x in inputs)})
    k = ctx.q(700, 6000)
    pool = build_pool(ctx.seed, k)
    tp = ThreadPool(core.NPROC)
    try:
        pristine = tp.map(lambda s: run_job({'mode': 'seq', 'steps': [s]})['outcomes'][0], pool)
        res.evals += len(pool)
        res.notes['pool_calls'] = len(pool)
        res.notes['pool_outcome_kinds'] = dict((kk, sum(1 for p in pristine if json.loads(p)[0] == kk)) for kk in ('ok', 'verr', 'EXC'))
        tmp = tempfile.mkdtemp(prefix='vf-c13-')
        try:
            path = os.path.join(tmp, 'pool.json')
            with open(path, 'w') as f:
                json.dump({'pool': pool, 'pristine': pristine}, f)
            # (1) state machines in fresh workers
            jobs = [{'mode': 'machine', 'pool': path, 'seed': core.subseed(ctx.seed, 'C13', 'machine', i), 'n': ctx.q(12, 300),
                     'steps': ctx.q(50, 100)} for i in range(ctx.q(16, 32))]
            outs = tp.map(lambda j: run_job(j, timeout=3000), jobs)
            for j, o in zip(jobs, outs):
                st = o['stats']
                res.evals += st['calls']
                res.hist['machine:calls'] += st['calls']
                res.hist['machine:mutations'] += st['mutations']
                res.hist['machine:sequences'] += st['sequences']
                res.hist['class:mutation-followed-by-call-on-same-registry'] += st['mutate-then-same-registry']
                for q in range(st['sequences']):
                    res.nt('machine', j['seed'], q)
                if o.get('error'):
                    res.errors.append('state machine worker: %s' % o['error'])
                if o.get('fail'):
                    steps = [dict(pool[t['i']]) if t['op'] == 'call' else {'op': 'mutate'} for t in o['trace']]
                    want = o['fail']['want']

                    def fails(trial):
                        got = run_job({'mode': 'seq', 'steps': trial})['outcomes']
                        return bool(got) and got[-1] != want
                    if fails(steps):
                        steps = ddmin(steps, fails)
                        prop_hist({'steps': steps}, res)
                    else:
                        # does not reproduce from the process trace alone: report with the whole trace
                        s = pool[o['fail']['i']]
                        res.violation('history|%s.%s|differs-from-fresh-interpreter(unreproduced)' % (s['m'], s['f']), 'hist', {'steps': steps},
                                      {'got': o['fail']['got'][:200], 'fresh': want[:200]})
            # sample
            for o in outs[:4]:
                for sq in o.get('sample_sequences', [])[:2]:
                    res.sample({'history': sq})
            # (1b) clock histories: per clock-reading module one fresh worker that makes the module's calls under an early
            # date, then under later dates, then under the early date again (a "today" captured at import or cached from an
            # earlier call answers later calls with a stale date)
            byclock = {}
            for i, sp in enumerate(pool):
                if sp.get('clock'):
                    byclock.setdefault(sp['m'], []).append(i)
            cjobs = []
            for mn, idxs in sorted(byclock.items()):
                order = sorted(idxs, key=lambda i: pool[i]['clock'])
                seq = order + sorted(idxs, key=lambda i: pool[i]['clock'], reverse=True)
                cjobs.append((mn, seq))
            couts = tp.map(lambda j: run_job({'mode': 'seq', 'steps': [pool[i] for i in j[1]]})['outcomes'], cjobs)
            for (mn, seq), got in zip(cjobs, couts):
                res.hist['clock-histories'] += 1
                res.nt('clock-history', mn)
                for pos, (i, g) in enumerate(zip(seq, got)):
                    res.evals += 1
                    if g != pristine[i]:
                        steps = [pool[k] for k in seq[:pos + 1]]

                        def fails(trial, want=pristine[i]):
                            o = run_job({'mode': 'seq', 'steps': trial})['outcomes']
                            return bool(o) and o[-1] != want
                        steps = ddmin(steps, fails)
                        prop_hist({'steps': steps}, res)
                        break
            # (1c) fresh interpreters that differ only in PYTHONHASHSEED: the whole pool as one batch per seed; a call whose
            # outcome differs from the seed-0 batch is confirmed with two single-call interpreters
            plain = [sp for sp in build_pool.full if not sp.get('clock')]
            res.notes['hashseed_batch_calls'] = len(plain)
            hseeds = list(range(0, ctx.q(4, 13)))
            batches = tp.map(lambda h: run_job({'mode': 'seq', 'steps': plain}, timeout=3000, hashseed=h)['outcomes'], hseeds)
            for h, got in zip(hseeds[1:], batches[1:]):
                res.hist['hashseed-batches'] += 1
                res.evals += len(got)
                nconf = 0
                for sp, g0, g in zip(plain, batches[0], got):
                    if g != g0 and nconf < 5:
                        nconf += 1
                        prop_hashseed({'call': sp, 'hashseed': h}, res)
                res.nt('hashseed', h)
            # (2) thread trials
            rnd = random.Random(core.subseed(ctx.seed, 'C13', 'threads'))
            trials = []
            # the harness clock is one per process, so thread trials only use calls made under the default date
            tpool = [s for s in pool if not s.get('clock')]
            for t in range(ctx.q(24, 600)):
                nthreads = rnd.choice([2, 4, 16])
                common = rnd.sample(tpool, min(len(tpool), 6))
                lists = []
                for _ in range(nthreads):
                    own = rnd.sample(tpool, 4)
                    lst = list(common) + own
                    rnd.shuffle(lst)
                    lists.append(lst[:8])
                trials.append({'lists': lists})

            def trial(case):
                r = core.Result()
                info = prop_threads(case, r)
                return r, info
            for (r, info), case in zip(tp.map(trial, trials), trials):
                if r.viol:
                    # a schedule-dependent observation: it counts only if the same trial shows it again in one of sixteen more
                    # fresh processes (seeded thread defects reproduce in most runs; a one-in-a-thousand event that cannot
                    # be shown again is reported as inconclusive, not as a violation)
                    def rerun(_i, case=case):
                        r2 = core.Result()
                        prop_threads(case, r2)
                        return bool(r2.viol)
                    tp2 = ThreadPool(8)
                    try:
                        again = sum(tp2.map(rerun, range(16)))
                    finally:
                        tp2.close()
                    res.evals += 16
                    res.hist['threads:reruns-of-an-anomalous-trial'] += 16
                    if not again:
                        res.notes.setdefault('unconfirmed_thread_anomalies', []).append(
                            dict((b, str(v['detail'])[:300]) for b, v in r.viol.items()))
                        res.hist['threads:anomaly-not-reproduced-in-16-reruns'] += 1
                        r.viol.clear()
                        r.viol_count.clear()
                res.merge(r)
                res.hist['threads:trials'] += 1
                if info and info.get('raced', 0) >= 2:
                    res.hist['class:thread-trials-with-concurrent-registry-first-use'] += 1
                res.nt('threads', json.dumps(case, sort_keys=True)[:2000])
            for tr in trials[:3]:
                res.sample({'thread_trial': {'threads': len(tr['lists']), 'per_thread_calls': [['%s.%s' % (s['m'], s['f']) for s in lst] for lst in tr['lists'][:2]]}})
        finally:
            shutil.rmtree(tmp, ignore_errors=True)
    finally:
        tp.close()
    return core.finish(ctx, res, LEVEL, RULE, ASSUME, SUBS)
