"""C18 - the online check application answers every query safely."""
import html
import html.parser
import importlib.machinery
import importlib.util
import json
import os
import sys
import urllib.parse

from hypothesis import strategies as st

from vf import core, gen

LEVEL = 'exploration'
RULE = ('query strings from a grammar (number= valid numbers of every module, hostile text, markup payloads carrying a sentinel in five '
        'contexts, valid GS1-128 strings carrying markup, repeated/absent/other parameters, malformed escapes, invalid UTF-8) x '
        'X-Requested-With header variants x sequences of 1..8 requests to one application instance compared with a fresh instance; '
        'oracle: no exception, 200 OK, AJAX body parses and lists exactly the modules whose is_valid() is True with the documented '
        'keys, HTML lists the same modules, input value round-trips through an HTML parser, no raw sentinel context; non-trivial = '
        'number accepted by >=1 module or carrying a sentinel; distinct by (query string, header)')
ASSUME = ['urllib.parse.parse_qs defines what the submitted number is', 'expected module set computed by calling is_valid() of the same tree',
          'fresh instance = the WSGI file executed again in the same process (library-level history is C13)']
SENT = 'zq9x'


def load_app():
    path = os.path.join(core.REPO, 'online_check', 'stdnum.wsgi')
    so, sp = sys.stdout, list(sys.path)
    try:
        loader = importlib.machinery.SourceFileLoader('stdnum_wsgi_%d' % len(_apps), path)
        spec = importlib.util.spec_from_loader(loader.name, loader)
        m = importlib.util.module_from_spec(spec)
        loader.exec_module(m)
    finally:
        sys.stdout = so
        sys.path[:] = sp
    _apps.append(m)
    return m


_apps = []


def call(app, qs, header):
    env = {'DOCUMENT_ROOT': core.REPO, 'SCRIPT_NAME': '/online_check/stdnum.wsgi', 'REQUEST_METHOD': 'GET'}
    if qs is not None:
        env['QUERY_STRING'] = qs
    if header is not None:
        env['HTTP_X_REQUESTED_WITH'] = header
    rec = {}

    def start_response(status, headers, exc_info=None):
        rec['status'] = status
        rec['headers'] = headers

    def run():
        body = app.application(env, start_response)
        return b''.join(body)
    o = core.out(run)
    return rec, o


class _P(html.parser.HTMLParser):
    def __init__(self):
        html.parser.HTMLParser.__init__(self, convert_charrefs=True)
        self.value = []
        self.tags = []

    def handle_starttag(self, tag, attrs):
        self.tags.append(tag)
        d = dict(attrs)
        if tag == 'input' and d.get('id') == 'number':
            self.value.append(d.get('value'))


def expected_modules(number):
    acc, crashed = [], []
    for name, m in core.number_modules().items():
        o = core.out(m.is_valid, number)
        if o[0] == 'EXC':
            crashed.append(name)
        elif o == ('ok', True):
            acc.append(name)
    return acc, crashed


def check_one(app, qs, header, res, case):
    """Oracle for one request; returns the response for the history comparison."""
    res.evals += 1
    params = urllib.parse.parse_qs(qs or '')
    number = params['number'][0] if 'number' in params else None
    ajax = (header or '').lower() == 'xmlhttprequest'
    rec, o = call(app, qs, header)
    mode = 'ajax' if ajax else 'html'
    if number is not None:
        acc, crashed = expected_modules(number)
    else:
        acc, crashed = [], []
    if SENT in (number or '') or acc:
        res.nt(qs, header)
    res.hist['mode:' + mode] += 1
    if acc:
        res.hist['class:number-accepted-by-a-module'] += 1
    if SENT in (number or ''):
        res.hist['class:sentinel'] += 1
    if o[0] != 'ok':
        res.violation('server-error|%s|%s|%s' % (mode, o[1], o[2] if len(o) > 2 else ''), 'req', case, {'qs': qs, 'number': number, 'out': [str(t) for t in o]})
        return None
    body = o[1]
    if rec.get('status') != '200 OK':
        res.violation('status|%s' % mode, 'req', case, {'qs': qs, 'status': rec.get('status')})
    try:
        text = body.decode('utf-8')
    except UnicodeDecodeError:
        res.violation('body-not-utf8|%s' % mode, 'req', case, {'qs': qs})
        return body
    if crashed:
        return body  # an is_valid() that raises is a C01 matter; the module set is undefined
    if ajax:
        try:
            data = json.loads(text)
        except ValueError:
            res.violation('json-unparseable', 'req', case, {'qs': qs, 'body': text[:200]})
            return body
        if not isinstance(data, list) or not all(isinstance(d, dict) for d in data):
            res.violation('json-shape', 'req', case, {'qs': qs, 'body': text[:200]})
            return body
        got = sorted(str(d.get('module')) for d in data)
        if got != sorted(acc):
            res.violation('ajax|module-set-differs', 'req', case,
                          {'qs': qs, 'number': number, 'missing': sorted(set(acc) - set(got))[:5], 'extra': sorted(set(got) - set(acc))[:5],
                           'duplicates': len(got) != len(set(got))})
        for d in data:
            if not set(('number', 'compact', 'valid', 'module', 'name', 'description', 'conversions')) <= set(d):
                res.violation('ajax|keys-missing', 'req', case, {'qs': qs, 'entry': sorted(d)})
                break
            if d.get('valid') is not True:
                res.violation('ajax|listed-entry-not-valid', 'req', case, {'qs': qs, 'entry': d.get('module')})
                break
    else:
        n_items = text.count('</p></li>')
        if n_items != len(acc):
            res.violation('html|result-count-differs', 'req', case, {'qs': qs, 'number': number, 'expected': len(acc), 'got': n_items})
        else:
            from stdnum.util import get_module_name
            for name in acc:
                nm = html.escape(get_module_name(core.number_modules()[name]))
                if (': <b>%s</b><p>' % nm) not in text:
                    res.violation('html|module-missing', 'req', case, {'qs': qs, 'number': number, 'module': name})
                    break
        p = _P()
        try:
            # the shipped template leaves its <script src> elements unclosed; parse the body part
            p.feed(text[max(text.find('<body'), 0):])
            p.close()
        except Exception as e:  # noqa: B902
            res.violation('html|unparseable', 'req', case, {'qs': qs, 'error': repr(e)})
            return body
        want = number or ''
        plain = all(ord(c) >= 32 and c not in '\x7f' for c in want)
        if len(p.value) != 1:
            res.violation('html|input-element-count', 'req', case, {'qs': qs, 'count': len(p.value)})
        elif plain and (p.value[0] or '') != want:
            res.violation('html|input-value-differs', 'req', case, {'qs': qs, 'number': want, 'value': p.value[0]})
        # the one legitimate place where a quote is followed by the submitted text is the value attribute itself
        low = text.replace('value="' + SENT, 'value=" ' + SENT)
        for ctx, name in (('<' + SENT, 'tag'), ('"' + SENT, 'dquote'), ("'" + SENT, 'squote')):
            if ctx in low:
                res.violation('html|raw-sentinel:%s' % name, 'req', case, {'qs': qs, 'number': number, 'around': low[max(0, low.find(ctx) - 40):low.find(ctx) + 20]})
        if ('&' + SENT) in low:
            res.violation('html|raw-sentinel:amp', 'req', case, {'qs': qs, 'number': number})
    if res.evals % 37 == 1:
        res.sample({'qs': qs[:120] if qs else qs, 'header': header, 'number': (number or '')[:60], 'accepting_modules': acc[:6], 'mode': mode})
    return body


def prop_req(case, res):
    app = load_app()
    check_one(app, case['qs'], case.get('header'), res, case)
    del _apps[:]


def prop_hist(case, res):
    """A sequence of requests against one instance; each response must equal a fresh instance's."""
    app = load_app()
    for i, r in enumerate(case['reqs']):
        sub = {'reqs': case['reqs'][:i + 1]}
        body = check_one(app, r['qs'], r.get('header'), res, sub)
        fresh = load_app()
        rec, o = call(fresh, r['qs'], r.get('header'))
        if body is not None and o[0] == 'ok' and o[1] != body:
            res.violation('history|response-differs-from-fresh-instance', 'hist', sub, {'step': i, 'qs': r['qs']})
        del _apps[1:]
    del _apps[:]
    if len(set(r['qs'] for r in case['reqs'])) >= 2:
        res.hist['class:history-with-2+-distinct-queries'] += 1


SUBS = {'req': prop_req, 'hist': prop_hist}

MARKUP = ['<%s', '"%s', "'%s", '&%s;', '</script><%s', '"><%s a="', "' onfocus='%s", '<!--%s-->', '%s<b>', '&amp;%s', '&#60;%s']


def numbers():
    mods = sorted(core.number_modules())

    @st.composite
    def valid_any(draw):
        name = draw(st.sampled_from(mods))
        k = draw(st.integers(0, 3))
        if k == 0:
            p = gen.seeds(name)
            return draw(st.sampled_from(p)) if p else '0'
        if k == 1 and hasattr(core.number_modules()[name], 'format'):
            v = draw(gen.valid_numbers(name))
            f = core.out(core.number_modules()[name].format, v)
            return f[1] if f[0] == 'ok' and isinstance(f[1], str) else v
        return draw(gen.valid_numbers(name))
    sent = st.builds(lambda t, a, b: a + (t % SENT) + b, st.sampled_from(MARKUP), st.text(max_size=5), st.text(max_size=5))
    gs1 = st.builds(lambda ai, t, b: ai + (t % SENT) + b, st.sampled_from(['10', '21', '(10)', '240', '91', '99']),
                    st.sampled_from(MARKUP), st.sampled_from(['', 'A', '1']))
    hostile = gen.edits(valid_any())
    return st.one_of(valid_any(), valid_any(), valid_any(), sent, gs1, gs1, hostile, st.text(max_size=30), gen.long_text(5000))


def requests():
    num = numbers()

    @st.composite
    def s(draw):
        kind = draw(st.integers(0, 9))
        n = draw(num)
        if kind <= 5:
            qs = urllib.parse.urlencode({'number': n}, quote_via=urllib.parse.quote if draw(st.booleans()) else urllib.parse.quote_plus)
        elif kind == 6:
            qs = urllib.parse.urlencode([('number', n), ('number', draw(num))])
        elif kind == 7:
            qs = draw(st.sampled_from(['', 'x=1', 'Number=1', 'number', 'number=', '&&', 'number=%', 'number=%zz', 'number=%ff%fe%41',
                                       'number=1+2', 'number=%00', 'number=a;number=b', 'number=%E2%82', 'x=1&number=9789264017979']))
        elif kind == 8:
            qs = 'a=%s&%s' % (urllib.parse.quote(draw(st.text(max_size=5))), urllib.parse.urlencode({'number': n}))
        else:
            qs = None
        header = draw(st.sampled_from([None, None, 'XMLHttpRequest', 'XMLHttpRequest', 'xmlhttprequest', 'XMLHTTPREQUEST', 'other', '']))
        return {'qs': qs, 'header': header}
    return s()


def shard(a):
    res = core.Result()
    if a['kind'] == 'sweep':
        # every module once: a valid number in the presentations a user pastes (leading tab, trailing newline, lower case
        # with spaces, the module's own format): info() calls compact()/format() of every accepting module unguarded
        app = load_app()
        for name in a['mods']:
            p = gen.pool(name)
            if not p:
                continue
            v = p[0]
            m = core.number_modules()[name]
            pres = ['\t' + v, v + '\n', ' ' + v.lower() + ' ']
            if hasattr(m, 'format'):
                f = core.out(m.format, v)
                if f[0] == 'ok' and isinstance(f[1], str):
                    pres.append('\r\n' + f[1])
            for i, x in enumerate(pres):
                qs = urllib.parse.urlencode({'number': x})
                case = {'qs': qs, 'header': 'XMLHttpRequest' if i == 1 else None}
                check_one(app, qs, case['header'], res, case)
            # two-stage generation: a cheap pre-filter asks only this module's is_valid() about one suspicious character at
            # every position of a few numbers (first of the pool, leap-day numbers); the texts on which it does not answer with
            # a bool are sent to the application, whose response contract alone decides
            from vf.checks.c12 import DATE_LAYOUT
            picks = [v]
            lay = DATE_LAYOUT.get(name)
            if name == 'se.personnummer':
                picks += gen.leap_numbers(name, (slice(0, 2), slice(2, 4), slice(4, 6)))[:9]
            elif lay is not None and lay[0] is not None:
                picks += gen.leap_numbers(name, (lay[0], lay[2], lay[3]))[:4]
            sent = 0
            for x in gen.literal_probes(name):
                res.hist['prefilter:is_valid-calls'] += 1
                o = core.out(m.is_valid, x)
                if (o[0] != 'ok' or o[1] not in (True, False)) and sent < 6:
                    sent += 1
                    res.hist['prefilter:texts-sent-to-the-application'] += 1
                    qs = urllib.parse.urlencode({'number': x})
                    for hdr in (None, 'XMLHttpRequest'):
                        check_one(app, qs, hdr, res, {'qs': qs, 'header': hdr})
            for w in picks:
                if len(w) > 40:
                    continue
                for i in range(len(w) + 1):
                    for c in gen.SUSPICIOUS:
                        for x in ([w[:i] + c + w[i + 1:]] if i < len(w) else []) + ([w[:i] + c + w[i:]] if i % 2 == 0 or i >= len(w) - 1 else []):
                            res.hist['prefilter:is_valid-calls'] += 1
                            o = core.out(m.is_valid, x)
                            if (o[0] != 'ok' or o[1] not in (True, False)) and sent < 6:
                                sent += 1
                                res.hist['prefilter:texts-sent-to-the-application'] += 1
                                qs = urllib.parse.urlencode({'number': x})
                                for hdr in (None, 'XMLHttpRequest'):
                                    check_one(app, qs, hdr, res, {'qs': qs, 'header': hdr})
        del _apps[:]
        return res
    if a['kind'] == 'req':
        core.drive(prop_req, requests(), a['n'], (a['seed'], 'C18', 'req', a['i']), res, shrink_skip=a['known'], max_shrink_buckets=3)
    else:
        strat = st.fixed_dictionaries({'reqs': st.lists(requests(), min_size=1, max_size=a['maxlen'])})
        core.drive(prop_hist, strat, a['n'], (a['seed'], 'C18', 'hist', a['i']), res, shrink_skip=a['known'], max_shrink_buckets=3)
    return res


def run(ctx):
    core.number_modules()
    args = [{'shard': 'req%d' % i, 'kind': 'req', 'i': i, 'n': ctx.q(120, 4000), 'seed': ctx.seed, 'known': ctx.known_buckets} for i in range(12)]
    args += [{'shard': 'hist%d' % i, 'kind': 'hist', 'i': i, 'n': ctx.q(25, 800), 'maxlen': ctx.q(8, 30), 'seed': ctx.seed, 'known': ctx.known_buckets} for i in range(4)]
    names = sorted(core.number_modules())
    args += [{'shard': 'sweep%d' % i, 'kind': 'sweep', 'mods': names[i::16]} for i in range(16)]
    res = core.run_shards(shard, args)
    return core.finish(ctx, res, LEVEL, RULE, ASSUME, SUBS)
