"""C08 - conversions between formats preserve validity and identity."""
from hypothesis import strategies as st

from vf import core, gen

LEVEL = 'exploration'
RULE = ('per relation of a frozen table (~35 conversions): corpus+synthesised valid source numbers in accepted presentations '
        '(module-probed separators, case, prefixes) x conversion options; oracle: conversion returns, target validate() accepts, identity '
        'embedding holds on canonical forms, inverse undoes it, result independent of the presentation; refusals only where the table '
        'marks the input inconvertible; non-trivial = presentation differs from canonical form or a rare length class; distinct by '
        '(relation, input, options)')
ASSUME = ['pe.ruc.to_dni(pe.cui.to_ruc(v)) is compared with v[:8] (a RUC carries no CUI check character)',
          'the identity embeddings are transcribed from the module docstrings (DESIGN C08)']


def M(n):
    return core.mod(n)


def own_luhn(s, alphabet='0123456789'):
    n = len(alphabet)
    t = 0
    for i, c in enumerate(reversed(s)):
        d = alphabet.index(c)
        if i % 2 == 0:
            d = sum(divmod(d * 2, n))
        t += d
    return alphabet[(-t) % n]


# name -> dict(src, call(x, kw), tgt, ident(v, t, kw), inv(t, kw) -> number that must validate to v in src, kw strategy,
#              refuse(v, kw) True when a ValidationError is the documented answer)
REL = {}


def rel(name, src, call, tgt, ident=None, inv=None, kw=None, refuse=None, tkw=None, inv_expect=None):
    REL[name] = dict(src=src, call=call, tgt=tgt, ident=ident, inv=inv, kw=kw, refuse=refuse, tkw=tkw, inv_expect=inv_expect)


rel('isbn.to_isbn13', 'isbn', lambda x, kw: M('isbn').to_isbn13(x), 'isbn',
    ident=lambda v, t, kw: len(t) == 13 and (t == v or (t[:3] == '978' and t[3:12] == v[:9])),
    inv=lambda t, v, kw: M('isbn').to_isbn10(t) if len(v) == 10 else t)
rel('isbn.to_isbn10', 'isbn', lambda x, kw: M('isbn').to_isbn10(x), 'isbn',
    ident=lambda v, t, kw: len(t) == 10 and t[:9] == (v[3:12] if len(v) == 13 else v[:9]),
    inv=lambda t, v, kw: M('isbn').to_isbn13(t) if len(v) == 13 else t,
    refuse=lambda v, kw: len(v) == 13 and not v.startswith('978'))
rel('isbn.validate(convert)', 'isbn', lambda x, kw: M('isbn').validate(x, convert=True), 'isbn',
    ident=lambda v, t, kw: len(t) == 13 and (t == v or (t[:3] == '978' and t[3:12] == v[:9])))
rel('ismn.to_ismn13', 'ismn', lambda x, kw: M('ismn').to_ismn13(x), 'ismn',
    ident=lambda v, t, kw: len(t) == 13 and t[:4] == '9790' and t[4:] == v[-9:])
rel('issn.to_ean', 'issn', lambda x, kw: M('issn').to_ean(x, **kw), 'ean',
    ident=lambda v, t, kw: len(t) == 13 and t[:10] == '977' + v[:7] and t[10:12] == kw.get('issue_code', '00'),
    kw=st.one_of(st.just({}), st.builds(lambda a: {'issue_code': a}, st.text(alphabet='0123456789', min_size=2, max_size=2))))
rel('cusip.to_isin', 'cusip', lambda x, kw: M('cusip').to_isin(x), 'isin', ident=lambda v, t, kw: t[:2] == 'US' and t[2:11] == v,
    refuse=lambda v, kw: any(c in '*@#' for c in v))
rel('gb.sedol.to_isin', 'gb.sedol', lambda x, kw: M('gb.sedol').to_isin(x), 'isin', ident=lambda v, t, kw: t[:4] == 'GB00' and t[4:11] == v)
rel('de.wkn.to_isin', 'de.wkn', lambda x, kw: M('de.wkn').to_isin(x), 'isin', ident=lambda v, t, kw: t[:5] == 'DE000' and t[5:11] == v)
rel('isin.from_natid(cusip)', 'cusip', lambda x, kw: M('isin').from_natid(kw['cc'], x), 'isin',
    ident=lambda v, t, kw: t[:2] == kw['cc'].upper() and t[2:11] == v, kw=st.sampled_from([{'cc': 'US'}, {'cc': 'us'}, {'cc': 'CA'}]),
    refuse=lambda v, kw: any(c in '*@#' for c in v))
rel('isin.from_natid(sedol)', 'gb.sedol', lambda x, kw: M('isin').from_natid(kw['cc'], x), 'isin',
    ident=lambda v, t, kw: t[:2] == kw['cc'].upper() and t[2:11] == '00' + v, kw=st.sampled_from([{'cc': 'GB'}, {'cc': 'gb'}, {'cc': 'IE'}]))
rel('es.ccc.to_iban', 'es.ccc', lambda x, kw: M('es.ccc').to_iban(x), 'es.iban', ident=lambda v, t, kw: t[:2] == 'ES' and t[4:] == v,
    inv=lambda t, v, kw: M('es.iban').to_ccc(t))
rel('es.ccc.to_iban(generic)', 'es.ccc', lambda x, kw: M('es.ccc').to_iban(x), 'iban', ident=lambda v, t, kw: t[:2] == 'ES' and t[4:] == v)
rel('es.iban.to_ccc', 'es.iban', lambda x, kw: M('es.iban').to_ccc(x), 'es.ccc', ident=lambda v, t, kw: t == v[4:],
    inv=lambda t, v, kw: M('es.ccc').to_iban(t))
rel('no.kontonr.to_iban', 'no.kontonr', lambda x, kw: M('no.kontonr').to_iban(x), 'no.iban',
    ident=lambda v, t, kw: t[:2] == 'NO' and len(t) == 15 and t[4:] == v.zfill(11),
    inv=lambda t, v, kw: M('no.iban').to_kontonr(t))
rel('no.kontonr.to_iban(generic)', 'no.kontonr', lambda x, kw: M('no.kontonr').to_iban(x), 'iban',
    ident=lambda v, t, kw: t[:2] == 'NO' and len(t) == 15 and t[4:] == v.zfill(11))
rel('no.iban.to_kontonr', 'no.iban', lambda x, kw: M('no.iban').to_kontonr(x), 'no.kontonr',
    ident=lambda v, t, kw: t.zfill(11) == v[4:], inv=lambda t, v, kw: M('no.kontonr').to_iban(t))
rel('au.acn.to_abn', 'au.acn', lambda x, kw: M('au.acn').to_abn(x), 'au.abn', ident=lambda v, t, kw: len(t) == 11 and t[2:] == v)
rel('fr.siret.to_siren', 'fr.siret', lambda x, kw: M('fr.siret').to_siren(x), 'fr.siren', ident=lambda v, t, kw: t == v[:9])
rel('fr.siren.to_tva', 'fr.siren', lambda x, kw: M('fr.siren').to_tva(x), 'fr.tva', ident=lambda v, t, kw: t[-9:] == v and len(t) == 11)
rel('fr.siret.to_tva', 'fr.siret', lambda x, kw: M('fr.siret').to_tva(x), 'fr.tva', ident=lambda v, t, kw: t[-9:] == v[:9] and len(t) == 11)
rel('pe.cui.to_ruc', 'pe.cui', lambda x, kw: M('pe.cui').to_ruc(x), 'pe.ruc', ident=lambda v, t, kw: t[:2] == '10' and t[2:10] == v[:8],
    inv=lambda t, v, kw: M('pe.ruc').to_dni(t), inv_expect=lambda v: v[:8])
rel('pe.ruc.to_dni', 'pe.ruc', lambda x, kw: M('pe.ruc').to_dni(x), 'pe.cui', ident=lambda v, t, kw: t == v[2:10],
    inv=lambda t, v, kw: M('pe.cui').to_ruc(t), refuse=lambda v, kw: not v.startswith('10'))
rel('in_.gstin.to_pan', 'in_.gstin', lambda x, kw: M('in_.gstin').to_pan(x), 'in_.pan', ident=lambda v, t, kw: t == v[2:12])
rel('it.aic.to_base32', 'it.aic', lambda x, kw: M('it.aic').to_base32(x), 'it.aic', inv=lambda t, v, kw: M('it.aic').from_base32(t),
    ident=lambda v, t, kw: True, refuse=None)
rel('ie.vat.convert', 'ie.vat', lambda x, kw: M('ie.vat').convert(x), 'ie.vat',
    ident=lambda v, t, kw: (t == v) if (v[1].isdigit() or len(v) != 8) else (len(t) == 8 and t[0] == '0' and t[1:6] == v[2:7] and t[6] == v[0] and t[7] == v[7]))
rel('mac.to_eui48', 'mac', lambda x, kw: M('mac').to_eui48(x), 'mac', ident=lambda v, t, kw: t.replace('-', ':').lower() == v)
rel('be.iban.to_bic', 'be.iban', lambda x, kw: M('be.iban').to_bic(x), 'bic', ident=lambda v, t, kw: True)
rel('cz.bankaccount.to_bic', 'cz.bankaccount', lambda x, kw: M('cz.bankaccount').to_bic(x), 'bic', ident=lambda v, t, kw: True)
rel('meid.format(dec)', 'meid', lambda x, kw: M('meid').format(x, format='dec', **kw), 'meid', ident=lambda v, t, kw: t == v,
    kw=st.sampled_from([{}, {'add_check_digit': True}, {'separator': ''}]),
    inv=lambda t, v, kw: M('meid').format(t, format='hex'))
rel('meid.format(hex)', 'meid', lambda x, kw: M('meid').format(x, format='hex', **kw), 'meid', ident=lambda v, t, kw: t == v,
    kw=st.sampled_from([{}, {'add_check_digit': True}, {'separator': ''}]))
rel('meid.compact', 'meid', lambda x, kw: M('meid').compact(x, **kw), 'meid', ident=lambda v, t, kw: t == v,
    kw=st.sampled_from([{}, {'strip_check_digit': False}]))
rel('isan.validate(add)', 'isan', lambda x, kw: M('isan').validate(x, add_check_digits=True), 'isan',
    ident=lambda v, t, kw: M('isan').compact(t, strip_check_digits=True) == M('isan').compact(v, strip_check_digits=True) and len(t) in (17, 26),
    inv=lambda t, v, kw: M('isan').validate(t, strip_check_digits=True), inv_expect=lambda v: M('isan').compact(v, strip_check_digits=True))
rel('isan.to_urn', 'isan', lambda x, kw: M('isan').to_urn(x)[len('URN:ISAN:'):], 'isan',
    ident=lambda v, t, kw: M('isan').compact(t, strip_check_digits=True) == M('isan').compact(v, strip_check_digits=True))
rel('isan.compact(strip)', 'isan', lambda x, kw: M('isan').compact(x, strip_check_digits=True), 'isan',
    ident=lambda v, t, kw: len(t) in (16, 24) and t == (v[:16] + v[17:25] if len(v) in (17, 26) else v[:16] + v[16:24]))
rel('de.stnr.to_country_number', 'de.stnr', lambda x, kw: M('de.stnr').to_country_number(x, **kw), 'de.stnr',
    ident=lambda v, t, kw: len(t) == 13, inv=lambda t, v, kw: M('de.stnr').to_regional_number(t),
    kw=st.one_of(st.just({}), st.builds(lambda r: {'region': r}, st.sampled_from(gen.DE_REGIONS))),
    refuse=lambda v, kw: len(v) == 13 or (kw.get('region') is None and len(M('de.stnr').guess_regions(v)) != 1)
    or (kw.get('region') is not None and not M('de.stnr').is_valid(v, kw['region'])))
rel('de.stnr.to_regional_number', 'de.stnr', lambda x, kw: M('de.stnr').to_regional_number(x), 'de.stnr',
    ident=lambda v, t, kw: len(t) in (10, 11), refuse=lambda v, kw: len(v) != 13)


def discover():
    """Conversion functions present in the tree but not in the frozen relation table: totality and presentation
    independence only."""
    import inspect
    known = set()
    for name in REL:
        known.add(name.split('(')[0])
    for name, m in core.number_modules().items():
        for fn, f in inspect.getmembers(m, inspect.isfunction):
            key = '%s.%s' % (name, fn)
            if fn.startswith('_') or key in known or key in REL or ('auto:' + key) in REL:
                continue
            if not (fn.startswith(('to_', 'from_')) or fn == 'convert'):
                continue
            if not getattr(f, '__module__', '').startswith('stdnum.' + name.split('.')[0]):
                continue
            try:
                req = [p.name for p in inspect.signature(f).parameters.values() if p.default is p.empty]
            except (TypeError, ValueError):
                continue
            if req == ['number']:
                REL['auto:' + key] = dict(src=name, call=(lambda x, kw, _f=f: _f(x)), tgt=None, ident=None, inv=None, kw=None, refuse=None,
                                          tkw=None, inv_expect=None, auto=True)


def prop_auto(case, res):
    r = REL[case['rel']]
    src = M(r['src'])
    x = core.dec(case['x'])
    res.evals += 1
    o = core.out(src.validate, x)
    if o[0] != 'ok' or not isinstance(o[1], str):
        return
    v = o[1]
    name = case['rel']
    res.hist['cases:' + name] += 1
    if x != v:
        res.nt(name, x)
    c = core.out(r['call'], x, {})
    if c[0] == 'EXC':
        res.violation('%s|conversion-crashes:%s' % (name, c[1]), 'c08', case, {'number': v, 'x': x, 'out': [str(t) for t in c]})
        return
    c2 = core.out(r['call'], v, {})
    if c2[0] != 'EXC' and c[0] != c2[0]:
        res.violation('%s|depends-on-presentation' % name, 'c08', case, {'x': x, 'from_x': [str(t) for t in c], 'from_canonical': [str(t) for t in c2]})


def prop(case, res):
    if case['rel'].startswith('auto:'):
        if case['rel'] not in REL:
            discover()
        return prop_auto(case, res)
    r = REL[case['rel']]
    src, tgt = M(r['src']), M(r['tgt'])
    x = core.dec(case['x'])
    kw = dict(case.get('kw') or {})
    res.evals += 1
    o = core.out(src.validate, x)
    if o[0] != 'ok' or not isinstance(o[1], str):
        res.hist['not-accepted'] += 1
        return
    v = o[1]
    name = case['rel']
    if name == 'it.aic.to_base32' and len(x.strip()) != 9:
        res.hist['not-in-domain(base32 input)'] += 1
        return
    if x != v:
        res.nt(name, x, sorted(kw.items()))
    res.hist['cases:' + name] += 1
    must_refuse = bool(r['refuse'] and r['refuse'](v, kw))
    c = core.out(r['call'], x, kw)
    if c[0] == 'EXC':
        res.violation('%s|conversion-crashes:%s' % (name, c[1]), 'c08', case, {'number': v, 'out': [str(t) for t in c]})
        return
    if must_refuse:
        res.hist['inconvertible-inputs'] += 1
        if c[0] != 'verr':
            # converting something the table calls inconvertible is only wrong if the result is not valid/identical
            pass
        if c[0] == 'verr':
            return
    if c[0] == 'verr':
        res.violation('%s|unexpected-refusal:%s' % (name, c[1]), 'c08', case, {'number': v, 'x': x})
        return
    t0 = c[1]
    if t0 is None and name.endswith('to_bic'):
        res.hist['to_bic-none'] += 1
        return
    if not isinstance(t0, str):
        res.violation('%s|non-str-result' % name, 'c08', case, {'number': v, 'result': repr(t0)[:80]})
        return
    tv = core.out(tgt.validate, t0, **(r['tkw'] or {}))
    if tv[0] != 'ok':
        if must_refuse:
            return
        res.violation('%s|target-invalid' % name, 'c08', case, {'number': v, 'x': x, 'converted': t0, 'target': [str(t) for t in tv]})
        return
    t = tv[1]
    if r['ident'] and not must_refuse:
        ok = core.out(r['ident'], v, t, kw)
        if ok != ('ok', True):
            res.violation('%s|identity-not-embedded' % name, 'c08', case, {'number': v, 'converted': t})
    # presentation independence
    c2 = core.out(r['call'], v, kw)
    if c2[0] == 'ok' and isinstance(c2[1], str):
        tv2 = core.out(tgt.validate, c2[1], **(r['tkw'] or {}))
        if tv2 != tv:
            res.violation('%s|depends-on-presentation' % name, 'c08', case, {'x': x, 'from_x': t, 'from_canonical': [str(q) for q in tv2]})
    elif c2[0] != 'ok' and not must_refuse:
        res.violation('%s|depends-on-presentation' % name, 'c08', case, {'x': x, 'from_x': t, 'from_canonical': [str(q) for q in c2]})
    if r['inv'] and not must_refuse:
        iv = core.out(r['inv'], t0, v, kw)
        exp = r['inv_expect'](v) if r['inv_expect'] else v
        if iv[0] != 'ok':
            res.violation('%s|inverse-fails' % name, 'c08', case, {'number': v, 'converted': t0, 'inverse': [str(q) for q in iv]})
        else:
            back = core.out(src.validate, iv[1]) if not r['inv_expect'] else ('ok', iv[1])
            if back != ('ok', exp):
                res.violation('%s|inverse-differs' % name, 'c08', case, {'number': v, 'converted': t0, 'inverse': iv[1], 'validated': [str(q) for q in back]})
    if res.hist['cases:' + name] % 17 == 1:
        res.sample({'relation': name, 'x': x, 'kw': kw, 'converted': t0})


def _fill(layout, parts):
    out, it = [], dict((k, iter(v)) for k, v in parts.items())
    for ch in layout:
        out.append(next(it[ch]) if ch in it else ch)
    return ''.join(out)


def prop_stnr(case, res):
    """de.stnr against the frozen layout table: a number built for a federal state converts to the national layout and back."""
    from vf.refs.tables import DE_STNR
    m = M('de.stnr')
    region = case['region']
    reg_l, nat_l = DE_STNR[region]
    parts = {'F': case['f'][:reg_l.count('F')], 'B': case['b'][:reg_l.count('B')], 'U': case['u'][:reg_l.count('U')], 'P': case['p']}
    regional, national = _fill(reg_l, parts), _fill(nat_l, parts)
    res.evals += 1
    res.nt('de.stnr', region, regional)
    res.hist['cases:de.stnr.layout'] += 1
    pres = regional if not case.get('sep') else regional[:2] + case['sep'] + regional[2:5] + case['sep'] + regional[5:]
    checks = [('validate(regional, region)', core.out(m.validate, pres, region), ('ok', regional)),
              ('validate(national, region)', core.out(m.validate, national, region), ('ok', national)),
              ('to_country_number(regional, region)', core.out(m.to_country_number, pres, region), ('ok', national)),
              ('to_regional_number(national)', core.out(m.to_regional_number, national), ('ok', regional)),
              ('region in guess_regions(regional)', core.out(lambda: region in m.guess_regions(pres)), ('ok', True)),
              ('guess_regions(national)', core.out(m.guess_regions, national), ('ok', [region]))]
    for what, got, want in checks:
        if got != want:
            res.violation('de.stnr|layout-table|%s|%s' % (what, region), 'c08-stnr', case,
                          {'regional': regional, 'national': national, 'got': [str(x) for x in got], 'want': [str(x) for x in want]})
    if res.hist['cases:de.stnr.layout'] % 40 == 1:
        res.sample({'rel': 'de.stnr layout table', 'region': region, 'regional': regional, 'national': national})


def shard_stnr(a):
    from vf.refs.tables import DE_STNR
    res = core.Result()
    dig = lambda n: st.text(alphabet='0123456789', min_size=n, max_size=n)  # noqa: E731
    strat = st.fixed_dictionaries({'region': st.sampled_from(sorted(DE_STNR)), 'f': dig(3), 'b': dig(4), 'u': dig(4), 'p': dig(1),
                                   'sep': st.sampled_from(['', '', '/', ' ', '-', '.'])})
    for region in sorted(DE_STNR):
        prop_stnr({'region': region, 'f': '123', 'b': '4567', 'u': '8901', 'p': '2', 'sep': ''}, res)
    core.drive(prop_stnr, strat, a['n'], (a['seed'], 'C08', 'stnr'), res, shrink_skip=a['known'])
    return res


SUBS = {'c08': prop, 'c08-stnr': prop_stnr}


def presentations(src, valid):
    """The statement's presentation variants: compact, space-/hyphen-/dot-separated (interior positions), the module's own
    format(), lower case; only separators the source module itself removes."""
    pr = gen.probe(src)
    seps = [c for c in ' -./' if c in pr['neutral']]
    m = M(src)

    @st.composite
    def s(draw):
        v = draw(valid)
        mode = draw(st.integers(0, 3))
        if mode == 0 and hasattr(m, 'format'):
            f = core.out(m.format, v)
            if f[0] == 'ok' and isinstance(f[1], str):
                v2 = f[1]
                if draw(st.booleans()):
                    v2 = v2.replace('-', ' ').replace('.', ' ')
                return v2.lower() if pr['lower'] and draw(st.booleans()) else v2
        chars = list(v)
        if seps and len(chars) > 1:
            sep = draw(st.sampled_from(seps))
            for _ in range(draw(st.integers(1, 4))):
                pos = draw(st.integers(1, len(chars) - 1))
                if chars[pos - 1] not in seps and chars[pos] not in seps:
                    chars.insert(pos, sep)
        x = ''.join(chars)
        if pr['lower'] and draw(st.integers(0, 2)) == 0:
            x = x.lower()
        return x
    return s()


def shard(a):
    res = core.Result()
    name = a['rel']
    r = REL[name]
    src = r['src']
    valid = gen.valid_numbers(src)
    raw = st.sampled_from(gen.seeds(src))
    x = st.one_of(valid, raw, presentations(src, valid), presentations(src, valid))
    strat = st.fixed_dictionaries({'rel': st.just(name), 'x': x.map(core.enc), 'kw': r['kw'] if r['kw'] is not None else st.just({})})
    core.drive(prop, strat, a['n'], (a['seed'], 'C08', name), res, shrink_skip=a['known'])
    # deterministic coverage of per-character branches: every letter at every letter position and every admissible symbol
    # (+ * & @ #) at every position of one valid number, each repaired into a valid number
    kws = [{}]
    if r['kw'] is not None:
        from hypothesis import find
        kws = [find(r['kw'], lambda k: True)]
    # numeric re-encodings (base 32, hexadecimal): values on the powers of the radix
    for w in gen.class_sweep(src, nbase=1) + gen.symbol_sweep(src, nbase=1) + gen.power_boundary_pool(src) + gen.edge_pool(src) + gen.boundary_pool(src):
        for kw in kws:
            prop({'rel': name, 'x': w, 'kw': kw}, res)
    return res


def run(ctx):
    core.number_modules()
    discover()
    args = [{'shard': n, 'rel': n, 'n': ctx.q(300, 8000), 'seed': ctx.seed, 'known': ctx.known_buckets} for n in REL]
    res = core.run_shards(shard, args)
    res.merge(core.run_shards(shard_stnr, [{'shard': 'de.stnr-layout', 'n': ctx.q(400, 8000), 'seed': ctx.seed, 'known': ctx.known_buckets}]))
    res.notes['relations'] = len(REL)
    res.notes['conversions_discovered_outside_the_table'] = sorted(n for n in REL if n.startswith('auto:'))
    res.notes['relations_with_few_cases'] = [n for n in REL if res.hist.get('cases:' + n, 0) < 50]
    return core.finish(ctx, res, LEVEL, RULE, ASSUME, SUBS)
