"""C02 - validate() returns a canonical fixed point."""
from hypothesis import strategies as st

from vf import core, gen

LEVEL = 'exploration'
RULE = ('per module: presentations (module-probed separators, look-alikes, whitespace, case, prefixes) and hostile edits of '
        'corpus+synthesised valid numbers x option table x frozen clock; only inputs accepted by validate() are in the '
        'domain; non-trivial = accepted input whose presentation differs from the returned value; distinct by (module, input, options)')
ASSUME = ['same options and same frozen date are used for both validate() calls']


def prop(case, res):
    name = case['mod']
    m = core.number_modules()[name]
    x = core.dec(case['x'])
    opts = gen.dec_opts(case.get('opts') or {})
    core.set_today(case.get('clock'))
    try:
        res.evals += 1
        o = core.out(m.validate, x, **opts)
        if o[0] != 'ok' or not isinstance(o[1], str):
            res.hist['not-accepted'] += 1
            return
        v1 = o[1]
        res.hist['accepted'] += 1
        if v1 != x:
            res.nt(name, x, sorted((case.get('opts') or {}).items()))
        if opts:
            res.hist['accepted-with-options'] += 1
        ok = ','.join(sorted(opts)) or '-'
        if v1 != v1.strip():
            res.violation('%s|whitespace-kept|opts=%s' % (name, ok), 'c02', case, {'returned': v1})
        o2 = core.out(m.validate, v1, **opts)
        if o2 != ('ok', v1):
            kind = 'changed' if o2[0] == 'ok' else 'rejected' if o2[0] == 'verr' else 'crash:%s' % o2[1]
            ax = ''.join(c for c in x if c.isalnum()).upper()
            if len(v1) >= 2 and v1[:2].isalpha() and (ax.startswith(v1[:2] * 2) or (v1[2:4] == v1[:2] and ax.startswith(v1[:2] * 3))):
                # the input carried the country prefix twice (a number whose own first characters equal the prefix)
                kind += ':doubled-prefix'
            res.violation('%s|not-fixed-point:%s|opts=%s' % (name, kind, ok), 'c02', case,
                          {'first': v1, 'second': [str(t) for t in o2]})
        if res.hist['accepted'] % 29 == 1:
            res.sample({'mod': name, 'x': x, 'opts': case.get('opts'), 'validate': v1})
    finally:
        core.set_today(None)


SUBS = {'c02': prop}
SWEEP_CHARS = [' ', '\n', '\t', '-', '.', '/', ':', ',', '0', '  ']


def strategy(name):
    valid = gen.valid_numbers(name)
    raw = st.sampled_from(gen.seeds(name))
    dec = gen.decorations(name, st.one_of(valid, valid, raw))
    x = st.one_of(dec, dec, dec, gen.decorations(name, dec), gen.edits(st.one_of(valid, raw)), gen.newline_edits(st.one_of(valid, raw, dec)), raw)
    return st.fixed_dictionaries({'mod': st.just(name), 'x': x.map(core.enc), 'opts': gen.option_strategy(name),
                                  'clock': gen.clock_strategy(name)})


def shard(a):
    res = core.Result()
    name = a['mod']
    core.drive(prop, strategy(name), a['n'], (a['seed'], 'C02', name), res, shrink_skip=a['known'])
    # every corpus number once in a few fixed presentations (rare kinds of number: one-stop-shop VAT numbers, ...)
    pr = gen.probe(name)
    seps = [c for c in ' -./' if c in pr['neutral']]
    for v in gen.pool(name)[:a.get('npool', 1000)]:
        xs = [' ' + v + ' ', v.lower(), v.upper()]
        if seps and len(v) > 2:
            xs.append(v[:2] + seps[0] + v[2:len(v) // 2] + seps[-1] + v[len(v) // 2:])
        for pre in pr['prefixes'][:2]:
            xs.append(pre.lower() + ' ' + v)
        for x in xs:
            prop({'mod': name, 'x': x, 'opts': {}, 'clock': None}, res)
    # one separator-like character inserted at, or put in place of, every position of a few corpus numbers: an accepted
    # input that the presentation probe does not class as neutral (it changes the value) still has to map to a fixed point
    for v in gen.pool(name)[:a.get('nsweep', 10)]:
        if len(v) > 60:
            continue
        for c in SWEEP_CHARS:
            for i in range(len(v) + 1):
                prop({'mod': name, 'x': v[:i] + c + v[i:], 'opts': {}, 'clock': None}, res)
                if i < len(v):
                    prop({'mod': name, 'x': v[:i] + c + v[i + 1:], 'opts': {}, 'clock': None}, res)
    # the prefixes / suffixes the module strips, on numbers with unusual ends (runs of zeros, every edge character) and on
    # a number that itself begins with the prefix: stripping twice is the classic way to lose the fixed point
    pres = [q for q in pr['prefixes'] if q.isalnum()]
    if pres or pr['suffixes']:
        ws = (gen.pool(name)[:20] + gen.edge_pool(name) + gen.boundary_pool(name))[:a.get('nends', 600)]
        for q in pres[:3]:
            v0 = gen.pool(name)[0]
            if len(q) < len(v0) and all(gen.cls(v0[i]) for i in range(len(q))):
                for alt in (q, q.lower()):
                    w = gen.synth(name, alt + v0[len(q):], [(i, ch) for i, ch in enumerate(alt)])
                    if w and w[:len(q)].upper() == q:
                        ws = [w] + ws
                    # ... also unrepaired: a tree that strips the prefix too eagerly rejects such a number on its own, but
                    # accepts it behind one more copy of the prefix
                    ws = [alt + v0[len(q):]] + ws
        for w in ws:
            for q in pres[:3]:
                for x in (q + w, q + ' ' + w, q.lower() + w):
                    prop({'mod': name, 'x': x, 'opts': {}, 'clock': None}, res)
            for q in pr['suffixes'][:3]:
                for x in (w + q, w + ' ' + q):
                    prop({'mod': name, 'x': x, 'opts': {}, 'clock': None}, res)
    if name == 'gs1_128':
        # every registered application identifier once with a drawn value, with the value that fills the format, and with
        # leading zeros in numeric fields (an element typed int / decimal must keep its width)
        from vf.refs import gs1model
        for ai in sorted(gs1model.ais()):
            if not gs1model.modelled(ai):
                continue
            encs = [gs1model.simple_value(ai)[0], gs1model.full_value(ai)[0]]
            comps = gs1model.components(gs1model.ais()[ai]['format'])
            if all(c[0] == 'N' for c in comps) and gs1model.ais()[ai]['type'] in ('str', 'int'):
                k = sum(c[2] for c in comps)
                encs += ['0' * (k - 1) + '7', '0' * k]
            if gs1model.ais()[ai]['type'] == 'decimal':
                # what Decimal() / int() would take but a digits-only field must not: sign, exponent, underscore, blank
                e0 = encs[1]
                encs += [e0[0] + c + e0[2:] for c in '-+ ' if len(e0) > 2] + [e0[:-2] + 'E1', e0[:-2] + '_1']
            for enc in encs:
                for x in (ai + enc, '(%s)%s' % (ai, enc)):
                    prop({'mod': name, 'x': x, 'opts': {}, 'clock': None}, res)
    extra = gen.extra_valid(name)
    if extra is not None:
        # registry / table walking generator: every branch of the table the module consumes (court names, agencies, ...)
        strat = st.fixed_dictionaries({'mod': st.just(name), 'x': st.one_of(extra, gen.decorations(name, extra)).map(core.enc),
                                       'opts': st.just({}), 'clock': st.none()})
        core.drive(prop, strat, a['n'] * 4, (a['seed'], 'C02', 'extra', name), res, shrink_skip=a['known'])
    res.notes['accepted_per_module'] = {name: res.hist['accepted']}
    return res


def run(ctx):
    mods = core.number_modules()
    n = ctx.q(250, 5000)
    args = [{'shard': name, 'mod': name, 'n': n, 'seed': ctx.seed, 'known': ctx.known_buckets} for name in mods]
    res = core.run_shards(shard, args)
    starved = [k for k, v in res.notes.get('accepted_per_module', {}).items() if v < n * 0.2]
    res.notes['modules_with_low_acceptance'] = starved
    # coverage-guided complement (atheris): accepted text whose result is not a fixed point; decided by prop()
    core.fuzz_campaign(ctx, 'c02', ctx.q(10, 300), lambda nm: gen.pool(nm),
                       lambda c: prop({'mod': c['mod'], 'x': core.enc(c['x']), 'opts': {}, 'clock': None}, res), res)
    return core.finish(ctx, res, LEVEL, RULE, ASSUME, SUBS)
