"""C07 - international identifiers agree with an independent reading of their standard."""
import itertools

from hypothesis import strategies as st

from vf import core, gen
from vf.refs import intl

LEVEL = 'exploration'
RULE = ('19 modules: (i) exhaustive sweeps of small payload spaces (ISSN, IMO, EAN-8, CAS: a seed-chosen slice in quick, all in thorough; every '
        'check character for the payload), (ii) Hypothesis: corpus+synthesised valid numbers, their presentations, single-edit neighbours '
        '(substitution over the format alphabet + X, newline, foreign digits, lower case; insertion; deletion; adjacent swap), random '
        'strings over the format alphabet at every length up to max+2, hostile text, (iii) constructed IBANs for every registry country '
        'and Base58Check/Bech32 addresses from an independent encoder (all witness versions/lengths, wrong version bytes); oracle: '
        'library validate() and the reference agree on accept/reject and on the canonical value; non-trivial = accepted by a side or at '
        'edit distance 1 from an accepted string; distinct by (module, input)')
ASSUME = ['references share util.clean look-alike table (C14) and iban.dat/be/banks.dat with the library (the statement says "given the same registry tables"); the ISIN/ISRC country-code tables are a snapshot frozen at design time (vf/refs/tables.py)',
          'inputs on which the library raises a non-ValidationError are C01 matters (counted, not reported)',
          'Bitcoin: BIP-173 only (Bech32m/BIP-350 not demanded: the module documents P2PKH, P2SH, Bech32)']

ALPHA = {'isbn': '0123456789X', 'ean': '0123456789', 'issn': '0123456789X', 'ismn': '0123456789M', 'isin': intl.AN, 'iban': intl.AN,
         'imei': '0123456789', 'iso11649': intl.AN, 'isni': '0123456789X', 'lei': intl.AN, 'grid': intl.AN, 'cusip': intl.AN + '*@#',
         'gb.sedol': intl.AN, 'figi': intl.AN, 'imo': '0123456789', 'casrn': '0123456789-', 'bic': intl.AN, 'isrc': intl.AN,
         'bitcoin': intl.B58 + '0OIl'}
MAXLEN = {'isbn': 13, 'ean': 14, 'issn': 8, 'ismn': 13, 'isin': 12, 'iban': 34, 'imei': 16, 'iso11649': 25, 'isni': 16, 'lei': 20,
          'grid': 18, 'cusip': 9, 'gb.sedol': 7, 'figi': 12, 'imo': 7, 'casrn': 12, 'bic': 11, 'isrc': 12, 'bitcoin': 40}


def prop(case, res):
    name = case['mod']
    m = core.mod(name)
    x = core.dec(case['x'])
    res.evals += 1
    o = core.out(m.validate, x)
    r = core.out(intl.REFS[name], x)
    if r[0] != 'ok':
        raise core.HarnessError('reference %s crashed on %r: %r' % (name, x, r))
    r = r[1]
    if o[0] == 'EXC':
        res.hist['skipped:non-ValidationError (C01)'] += 1
        return
    lib_acc, ref_acc = o[0] == 'ok', r[0] == 'ok'
    if lib_acc or ref_acc or case.get('near'):
        res.nt(name, x)
    res.hist['both-accept' if lib_acc and ref_acc else 'both-reject' if not lib_acc and not ref_acc else 'disagree'] += 1
    if lib_acc and not ref_acc:
        res.violation('%s|lib-accepts|ref:%s' % (name, r[1]), 'c07', case, {'x': x, 'lib': o[1], 'ref': r[1]})
    elif ref_acc and not lib_acc:
        res.violation('%s|lib-rejects:%s|ref-accepts' % (name, o[1]), 'c07', case, {'x': x, 'lib': o[1], 'ref': r[1]})
    elif lib_acc and o[1] != r[1]:
        res.violation('%s|canonical-differs' % name, 'c07', case, {'x': x, 'lib': o[1], 'ref': r[1]})
    if res.evals % 211 == 1:
        res.sample({'mod': name, 'x': x, 'lib': [str(t) for t in o], 'ref': list(r)})


def prop_iban_nc(case, res):
    """IBAN generic rules only (check_country=False)."""
    m = core.mod('iban')
    x = core.dec(case['x'])
    res.evals += 1
    o = core.out(m.validate, x, check_country=False)
    r = intl.ref_iban(x, check_country=False)
    if o[0] == 'EXC':
        return
    if (o[0] == 'ok') or (r[0] == 'ok'):
        res.nt('iban-nc', x)
    if (o[0] == 'ok') != (r[0] == 'ok'):
        res.violation('iban(check_country=False)|%s|ref:%s' % ('lib-accepts' if o[0] == 'ok' else 'lib-rejects:' + o[1], r[1] if r[0] != 'ok' else 'accepts'),
                      'iban_nc', case, {'x': x, 'lib': [str(t) for t in o], 'ref': list(r)})
    elif o[0] == 'ok' and o[1] != r[1]:
        res.violation('iban(check_country=False)|canonical-differs', 'iban_nc', case, {'x': x, 'lib': o[1], 'ref': r[1]})


def prop_isbn_convert(case, res):
    """ISBN with the documented convert=True option: same accept set, ISBN-13 canonical form."""
    m = core.mod('isbn')
    x = core.dec(case['x'])
    res.evals += 1
    o = core.out(m.validate, x, convert=True)
    r = intl.ref_isbn(x)
    if o[0] == 'EXC':
        return
    if r[0] == 'ok' and len(r[1]) == 10:
        body = '978' + r[1][:9]
        t = sum((3 if i % 2 else 1) * int(c) for i, c in enumerate(body))
        r = ('ok', body + str((10 - t) % 10))
    if o[0] == 'ok' or r[0] == 'ok':
        res.nt('isbn-convert', x)
    if (o[0] == 'ok') != (r[0] == 'ok'):
        res.violation('isbn(convert=True)|%s|ref:%s' % ('lib-accepts' if o[0] == 'ok' else 'lib-rejects:' + o[1], r[1] if r[0] != 'ok' else 'accepts'),
                      'isbn_convert', case, {'x': x, 'lib': [str(t) for t in o], 'ref': list(r)})
    elif o[0] == 'ok' and o[1] != r[1]:
        res.violation('isbn(convert=True)|canonical-differs', 'isbn_convert', case, {'x': x, 'lib': o[1], 'ref': r[1]})


SUBS = {'c07': prop, 'iban_nc': prop_iban_nc, 'isbn_convert': prop_isbn_convert}

FOREIGN = ['٣', '५', '０', '²', '①', 'Ⅷ', '\n', '\t', ' ', 'ı', 'ß', 'Ｘ', 'х', 'Х']


def neighbours(name, base):
    al = ALPHA[name]

    @st.composite
    def s(draw):
        v = draw(base)
        if not v:
            return v
        k = draw(st.integers(0, 5))
        i = draw(st.one_of(st.integers(0, len(v) - 1), st.sampled_from([0, len(v) - 1, max(len(v) - 2, 0)])))
        i = min(i, len(v) - 1)
        c = draw(st.one_of(st.sampled_from(al), st.sampled_from(al), st.sampled_from(al.lower() + 'X'), st.sampled_from(FOREIGN)))
        if k <= 2:
            return v[:i] + c + v[i + 1:]
        if k == 3:
            return v[:i] + c + v[i:]
        if k == 4:
            return v[:i] + v[i + 1:]
        return v[:i] + v[i + 1:i + 2] + v[i] + v[i + 2:] if i + 1 < len(v) else v + c
    return s()


def letter_checks(rearranged_prefix):
    """Check 'digits' containing a letter that nevertheless satisfy mod 97 (int(x, 36) readers accept them)."""
    good = [a + b for a in intl.AN for b in intl.AN if (a in intl.U or b in intl.U) and intl.mod97(rearranged_prefix + a + b) == 1]
    return st.sampled_from(good) if good else st.text(alphabet=intl.AN, min_size=2, max_size=2)


@st.composite
def constructed_mod97(draw, name):
    """ISO 11649 references and LEIs from scratch, incl. letter 'check digits' and wrong lengths."""
    if name == 'iso11649':
        body = draw(st.text(alphabet=intl.AN, min_size=1, max_size=22))
        pre = body + 'RF'
        chk = '%02d' % (98 - intl.mod97(pre + '00')) if draw(st.integers(0, 4)) else draw(letter_checks(pre))
        return 'RF' + chk + body
    n = draw(st.sampled_from([18, 18, 18, 17, 19, 4, 0]))
    body = draw(st.text(alphabet=intl.AN, min_size=n, max_size=n))
    chk = '%02d' % (98 - intl.mod97(body + '00')) if draw(st.integers(0, 4)) else draw(letter_checks(body))
    return body + chk


@st.composite
def constructed_iban(draw):
    reg = intl.iban_registry()
    cc = draw(st.sampled_from(sorted(reg)))
    import re
    body = ''
    for n, k in re.findall(r'([1-9][0-9]*)!([nac])', reg[cc]):
        al = {'n': intl.D, 'a': intl.U, 'c': intl.AN}[k]
        body += draw(st.text(alphabet=al, min_size=int(n), max_size=int(n)))
    if cc == 'BE' and draw(st.booleans()):
        body = body[:10] + '%02d' % (int(body[:10]) % 97 or 97)
    if cc == 'ME' and draw(st.booleans()):
        body = body[:16] + '%02d' % (98 - int(body[:16] + '00') % 97)
    if cc == 'NO' and draw(st.booleans()):
        s = sum(w * int(d) for w, d in zip((5, 4, 3, 2, 7, 6, 5, 4, 3, 2), body[:10])) % 11
        c = (11 - s) % 11
        body = body[:10] + (str(c) if c < 10 else '0')
    if cc == 'ES' and draw(st.booleans()):
        def cd(s):
            c = sum(int(n) * (2 ** i % 11) for i, n in enumerate(s)) % 11
            return str(c if c < 2 else 11 - c)
        body = body[:8] + cd('00' + body[:8]) + cd(body[10:]) + body[10:]
    chk = '%02d' % (98 - intl.mod97(body + cc + '00'))
    kind = draw(st.integers(0, 9))
    if kind == 0:
        chk = draw(letter_checks(body + cc))
    x = cc + chk + body
    if kind == 1:
        x = x.lower()
    if kind == 2:
        x = ' '.join(x[i:i + 4] for i in range(0, len(x), 4))
    return x


@st.composite
def constructed_bitcoin(draw):
    kind = draw(st.integers(0, 9))
    if kind <= 3:
        ver = draw(st.sampled_from([0, 0, 5, 5, 5, 4, 6, 7, 1, 111, 196]))
        n = draw(st.sampled_from([20, 20, 20, 19, 21]))
        return intl.b58check(ver, draw(st.binary(min_size=n, max_size=n)))
    if kind == 4:
        # explicit 5-bit groups with odd padding: surplus all-zero group, non-zero padding bits, too many padding bits
        witver = draw(st.sampled_from([0, 0, 1, 16]))
        n = draw(st.sampled_from([20, 32, 2, 5, 40]))
        groups = [witver] + intl.convertbits(list(draw(st.binary(min_size=n, max_size=n))), 8, 5, True)
        tweak = draw(st.integers(0, 3))
        if tweak == 0:
            groups.append(0)
        elif tweak == 1:
            groups += [0, 0]
        elif tweak == 2:
            groups[-1] |= 1
        else:
            groups.append(draw(st.integers(0, 31)))
        return intl.bech32_encode_groups(groups)
    witver = draw(st.sampled_from([0, 0, 0, 1, 2, 16, 17, 31]))
    n = draw(st.sampled_from([20, 32, 20, 32, 1, 2, 19, 21, 33, 40, 41]))
    a = intl.bech32_encode(witver, draw(st.binary(min_size=n, max_size=n)))
    form = draw(st.integers(0, 5))
    if form == 0:
        return a.upper()
    if form == 1:
        i = draw(st.integers(0, len(a) - 1))
        return a[:i] + a[i].upper() + a[i + 1:]
    if form == 2:
        return a[:-1] + draw(st.sampled_from(intl.B32))
    return a


def strategy(name, maxlen):
    valid = gen.valid_numbers(name)
    raw = st.sampled_from(gen.seeds(name))
    al = ALPHA[name]
    parts = [valid, raw, gen.decorations(name, valid), neighbours(name, valid), neighbours(name, valid), neighbours(name, raw),
             st.text(alphabet=st.sampled_from(al), min_size=0, max_size=MAXLEN[name] + 2),
             st.text(alphabet=st.sampled_from(al), min_size=max(MAXLEN[name] - 6, 0), max_size=MAXLEN[name] + 1),
             gen.edits(valid), st.text(max_size=20)]
    # presentations that do not depend on what the tree under test currently accepts (gen.decorations learns them from it)
    parts += [st.one_of(valid, raw).flatmap(lambda v: st.sampled_from([v.lower(), v.upper(), v.swapcase(), ' ' + v.lower(), v[:-1] + v[-1:].lower()])),
              st.tuples(st.one_of(valid, raw), st.integers(0, 40), st.sampled_from(' -')).map(lambda t: t[0][:t[1]] + t[2] + t[0][t[1]:])]
    if name == 'iban':
        parts += [constructed_iban(), constructed_iban(), neighbours(name, constructed_iban())]
    if name in ('iso11649', 'lei'):
        parts += [constructed_mod97(name), neighbours(name, constructed_mod97(name))]
    if name == 'bitcoin':
        parts += [constructed_bitcoin(), constructed_bitcoin(), neighbours(name, constructed_bitcoin())]
    near = st.one_of(*parts)
    return st.builds(lambda x: {'mod': name, 'x': core.enc(x), 'near': True}, near)


def shard(a):
    res = core.Result()
    name = a['mod']
    core.drive(prop, strategy(name, 0), a['n'], (a['seed'], 'C07', name, a['i']), res, shrink_skip=a['known'])
    # deterministic: at every position of a few valid numbers the same-valued digit of three other scripts and the letters
    # whose case mappings cross into ASCII (a pattern widened to \d / a case-insensitive comparison)
    fold = {'K': '\u212a', 'S': '\u017f', 'I': '\u0131', 'A': '\u0410', 'X': '\u0425'}
    for v in gen.pool(name)[:3]:
        for i, ch in enumerate(v):
            alts = []
            if ch.isdigit() and ch.isascii():
                alts = [chr(0x660 + int(ch)), chr(0x966 + int(ch)), chr(0xFF10 + int(ch)), chr(0x1D7CE + int(ch))]
            elif ch.upper() in fold:
                alts = [fold[ch.upper()], fold[ch.upper()].lower()]
            for alt in alts:
                prop({'mod': name, 'x': core.enc(v[:i] + alt + v[i + 1:]), 'near': True}, res)
    if name == 'isbn':
        v = gen.valid_numbers('isbn')
        strat = st.builds(lambda x: {'x': core.enc(x)}, st.one_of(v, neighbours('isbn', v), neighbours('isbn', st.sampled_from(gen.seeds('isbn'))),
                                                               gen.decorations('isbn', v)))
        core.drive(prop_isbn_convert, strat, a['n'], (a['seed'], 'C07', 'isbn_convert', a['i']), res, shrink_skip=a['known'])
    if name == 'iban':
        strat = st.builds(lambda x: {'x': core.enc(x)}, st.one_of(constructed_iban(), neighbours('iban', constructed_iban()),
                                                               gen.valid_numbers('iban'), neighbours('iban', gen.valid_numbers('iban'))))
        core.drive(prop_iban_nc, strat, a['n'], (a['seed'], 'C07', 'iban_nc', a['i']), res, shrink_skip=a['known'])
    return res


def shard_exh(a):
    """Exhaustive sweeps: every payload in [lo, hi) with every candidate check character."""
    res = core.Result()
    kind = a['kind']
    for p in range(a['lo'], a['hi']):
        if kind == 'issn':
            body = '%07d' % p
            xs = [body + c for c in '0123456789X']
            name = 'issn'
        elif kind == 'imo':
            body = '%06d' % p
            xs = [body + c for c in '0123456789']
            name = 'imo'
        elif kind == 'ean8':
            body = '%07d' % p
            xs = [body + c for c in '0123456789']
            name = 'ean'
        elif kind == 'prefix':
            # every two-letter prefix on a fixed well-formed body: country-code tables of ISIN and ISRC
            cc = intl.U[p // 26] + intl.U[p % 26]
            body12 = cc + '037833100'
            chk = [c for c in '0123456789' if intl.luhn_ok(''.join(str(intl.AN.index(ch)) for ch in body12 + c))]
            prop({'mod': 'isin', 'x': body12 + chk[0]}, res)
            prop({'mod': 'isrc', 'x': cc + 'A1B2400017'}, res)
            prop({'mod': 'isrc', 'x': cc.lower() + '-a1b-24-00017'}, res)
            continue
        else:
            body = str(p)
            if len(body) < 4:
                continue
            xs = [body + c for c in '0123456789'] + ['%s-%s-%s' % (body[:-2], body[-2:], c) for c in '0123456789']
            name = 'casrn'
        for x in xs:
            prop({'mod': name, 'x': x}, res)
    res.nontrivial_extra += 0
    return res


def run(ctx):
    core.number_modules()
    args = []
    per = ctx.q(2, 8)
    for name in intl.REFS:
        for i in range(per):
            args.append({'shard': name, 'mod': name, 'i': i, 'n': ctx.q(1200, 10000), 'seed': ctx.seed, 'known': ctx.known_buckets})
    res = core.run_shards(shard, args)
    # exhaustive sweeps
    import random
    rnd = random.Random(core.subseed(ctx.seed, 'C07', 'sweep'))
    ex = []
    for kind, total, span in (('issn', 10 ** 7, ctx.q(20000, 10 ** 7)), ('imo', 10 ** 6, ctx.q(20000, 10 ** 6)),
                              ('ean8', 10 ** 7, ctx.q(20000, 10 ** 7)), ('casrn', 10 ** 6, ctx.q(20000, 10 ** 6))):
        start = 0 if span >= total else rnd.randrange(0, total - span)
        nsh = 16 if span > 10 ** 5 else 4
        step = (span + nsh - 1) // nsh
        for i in range(nsh):
            lo, hi = start + i * step, min(start + (i + 1) * step, start + span)
            if lo < hi:
                ex.append({'shard': '%s[%d:%d]' % (kind, lo, hi), 'kind': kind, 'lo': lo, 'hi': hi})
        res.notes['sweep:' + kind] = 'payloads %d..%d of %d' % (start, start + span, total)
    ex.append({'shard': 'prefix', 'kind': 'prefix', 'lo': 0, 'hi': 676})
    res.notes['sweep:prefix'] = 'all 676 two-letter prefixes for ISIN and ISRC'
    res2 = core.run_shards(shard_exh, ex)
    res.merge(res2)
    return core.finish(ctx, res, LEVEL, RULE, ASSUME, SUBS, extra={'exhaustive': not ctx.quick,
                       'exhaustive_part': 'ISSN / IMO / EAN-8 / CAS payload spaces (thorough tier sweeps them completely)'})
