"""C11 - every shipped registry entry is well-formed and usable by its consumer."""
import glob
import os

from vf import core
from vf.refs import numdbref

LEVEL = 'exploration'
RULE = ('every non-comment line of the 17 shipped registries (exhaustive): (1) strict grammar via the independent reference reader, '
        '(2) reachability: numdb lookup of path+lo and path+hi returns the entry at its depth with its properties, (3) consumer '
        'witness built per registry (IBAN structure -> account with correct check digits, GS1 AI -> encode/decode, ISBN range -> '
        'five-part split, bank/location/office -> info()/getter returns the entry); non-trivial = every (line, witness kind); '
        'distinct by (file, line, witness)')
ASSUME = ['witness numbers are completed with the first child range at deeper levels and zero/A padding',
          'consumer witness for id/loc second-level entries is acceptance by id.nik.validate (the module exposes no info())']


def registries():
    root = os.path.join(core.REPO, 'stdnum')
    files = sorted(glob.glob(os.path.join(root, '*.dat')) + glob.glob(os.path.join(root, '*', '*.dat')))
    return [(f[len(root) + 1:-4], f) for f in files]


def mod97(s):
    return int(''.join(str(int(c, 36)) for c in s)) % 97


def iban_witnesses(code, bban):
    """Build IBANs from a BBAN structure such as 4!n4!n12!c (independent of stdnum.iban)."""
    import re
    toks = re.findall(r'(\d+)(!?)([nacxe]|.)', bban)
    if ''.join(a + b + c for a, b, c in toks) != bban or not toks:
        return None
    outs = []
    for variant in range(3):
        body = ''
        for n, bang, kind in toks:
            n = int(n)
            if kind == 'n':
                ch = '0123456789'
            elif kind == 'a':
                ch = 'ABCDEFGHIJKLMNOPQRSTUVWXYZ'
            elif kind == 'c':
                ch = '0123456789ABCDEFGHIJKLMNOPQRSTUVWXYZ'
            else:
                return None
            body += ''.join(ch[(i * 7 + variant * 3 + len(body)) % len(ch)] for i in range(n))
        cd = '%02d' % (98 - mod97(body + code + '00'))
        outs.append(code + cd + body)
    return outs


def superset(d, props):
    try:
        return all(d.get(k) == v for k, v in props.items())
    except Exception:  # noqa: B902
        return False


def luhn_free_ean13(s12):
    t = sum((3 if i % 2 else 1) * int(c) for i, c in enumerate(s12))
    return s12 + str((10 - t) % 10)


def consumer(name, e, path, w_lo, depth):
    """Return None if fine, else (kind, detail). path = list of ancestors' first lows."""
    m = core.mod
    props = e.props
    lo = e.ranges[0][0]
    if name == 'at/fa':
        r = core.out(m('at.tin').info, w_lo + '0000000')
        return None if r[0] == 'ok' and superset(r[1], props) else ('consumer:at.tin.info', r)
    if name == 'at/postleitzahl':
        r = core.out(m('at.postleitzahl').info, w_lo)
        v = core.out(m('at.postleitzahl').validate, w_lo)
        return None if r[0] == 'ok' and superset(r[1], props) and v == ('ok', w_lo) else ('consumer:at.postleitzahl', (r, v))
    if name == 'be/banks':
        r = core.out(m('be.iban').info, 'BE00' + w_lo + '000000000')
        return None if r[0] == 'ok' and superset(r[1], props) else ('consumer:be.iban.info', r)
    if name == 'cfi':
        r = core.out(m('cfi').info, w_lo)
        if r[0] != 'ok':
            return ('consumer:cfi.info', r)
        if depth >= 2:
            good = ('v' not in props or props['v'] in r[1].values()) and ('a' not in props or w_lo[depth] == 'X' or props['a'] in r[1])
        else:
            good = superset(r[1], props)
        return None if good else ('consumer:cfi.info', r)
    if name == 'cn/loc':
        r = core.out(m('cn.ric').get_birth_place, w_lo + '198001010000')
        return None if r[0] == 'ok' and superset(r[1], props) else ('consumer:cn.ric.get_birth_place', r)
    if name == 'cz/banks':
        r = core.out(m('cz.bankaccount').info, '19-2000145399/' + w_lo)
        return None if r[0] == 'ok' and superset(r[1], props) else ('consumer:cz.bankaccount.info', r)
    if name == 'eu/nace':
        r = core.out(m('eu.nace').info, w_lo)
        v = core.out(m('eu.nace').validate, w_lo)
        return None if r[0] == 'ok' and superset(r[1], props) and v[0] == 'ok' else ('consumer:eu.nace.info', (r, v))
    if name == 'iban':
        ws = iban_witnesses(lo, props.get('bban', ''))
        if not ws:
            return ('consumer:iban-structure-not-understood', props.get('bban'))
        for w in ws:
            r = core.out(m('iban').validate, w, check_country=False)
            if r != ('ok', w):
                return ('consumer:iban.validate', (w, r))
        return None
    if name == 'id/loc':
        w = (w_lo + '000000')[:6] + '010190' + '0001'
        r = core.out(m('id.nik').validate, w)
        return None if r == ('ok', w) else ('consumer:id.nik.validate', (w, r))
    if name == 'imsi':
        w = (w_lo + '0' * 15)[:15]
        r = core.out(m('imsi').info, w)
        if r[0] != 'ok' or not superset(r[1], props):
            return ('consumer:imsi.info', (w, r))
        if depth == 1 and r[1].get('mnc') != lo:
            return ('consumer:imsi.info-mnc', (w, r[1].get('mnc')))
        return None
    if name == 'isbn':
        if depth < 2 and not props:
            return None  # structural lines (prefix, group-range list) carry nothing for the consumer
        if depth == 1:
            r = core.out(core.mod('isbn').split, luhn_free_ean13((w_lo + '0' * 12)[:12]))
            return None if r[0] == 'ok' and r[1][1] == lo else ('consumer:isbn.split-group', r)
        if depth >= 2:
            body = (w_lo + '0' * 12)[:12]
            if len(w_lo) >= 12:
                return ('consumer:isbn-no-room-for-item', w_lo)
            w = luhn_free_ean13(body)
            r = core.out(core.mod('isbn').split, w)
            good = r[0] == 'ok' and len(r[1]) == 5 and all(r[1]) and ''.join(r[1]) == w and (depth > 2 or r[1][2] == lo)
            v = core.out(core.mod('isbn').validate, w)
            return None if good and v == ('ok', w) else ('consumer:isbn.split', (w, r, v))
        return None
    if name == 'isil':
        agency = lo.rstrip('$')
        w = agency.lower() + '-123'
        f = core.out(m('isil').format, w)
        v = core.out(m('isil').validate, agency + '-123')
        return None if f == ('ok', agency + '-123') and v[0] == 'ok' else ('consumer:isil', (f, v))
    if name == 'my/bp':
        r = core.out(m('my.nric').get_birth_place, '800101' + w_lo + '0000')
        return None if r[0] == 'ok' and superset(r[1], props) else ('consumer:my.nric.get_birth_place', r)
    if name == 'nz/banks':
        w = (w_lo + '0' * 16)[:16]
        r = core.out(m('nz.bankaccount').info, w)
        if not (r[0] == 'ok' and superset(r[1], props)):
            return ('consumer:nz.bankaccount.info', r)
        if depth >= 1:
            # a registered branch must be usable: some account number of it validates (the checksum algorithm is chosen per
            # bank in a table inside the module)
            last = None
            for base in range(1, 400):
                acct = (w_lo + '0' * 6)[:6] + '%07d' % base + '000'
                last = core.out(m('nz.bankaccount').validate, acct)
                if last == ('ok', acct):
                    return None
            return ('consumer:nz.bankaccount.validate-accepts-no-account-of-the-branch', (w_lo, last))
        return None
    if name == 'oui':
        w = (w_lo + '0' * 12)[:12]
        w = ':'.join(w[i:i + 2] for i in range(0, 12, 2))
        r = core.out(m('mac').get_manufacturer, w)
        g = core.out(m('mac').get_oui, w)
        if e.children:
            # a block that is subdivided: the zero-padded witness falls into a child assignment
            good = r[0] == 'ok' and g[0] == 'ok' and g[1].startswith(w_lo)
        else:
            good = r == ('ok', props.get('o', '').replace('%', '"')) and g == ('ok', w_lo)
        return None if good else ('consumer:mac.get_manufacturer', (r, g))
    if name == 'us/ein':
        r = core.out(m('us.ein').get_campus, w_lo + '0000000')
        return None if r == ('ok', props.get('campus')) else ('consumer:us.ein.get_campus', r)
    if name == 'gs1_ai':
        from vf.refs import gs1model
        return gs1model.consumer_witness(lo, props)
    return ('no-consumer-builder', name)


def check_entry(case, res):
    """case: {'name', 'line'}: all witnesses of one registry line."""
    from stdnum import numdb
    name, lineno = case['name'], case['line']
    roots, problems = _parsed(name)
    ent = _entries(name).get(lineno)
    if ent is None:
        raise core.HarnessError('line %d of %s is not an entry' % (lineno, name))
    e, path, depth, mycomp = ent
    tok = e.raw.strip().split(' ')[0][:40]
    key = '%s|%s%s' % (name, '/'.join(path) + '/' if path else '', tok)
    for k in e.problems:
        res.evals += 1
        res.violation('%s|grammar:%s' % (key, k), 'entry', case, {'line': lineno, 'text': e.raw.strip()[:120]})
    if not e.ranges:
        return
    db = numdb.get(name)
    prefix = ''.join(path)
    reach_ok = True
    for lo, hi in e.ranges if len(e.ranges) <= 6 else [e.ranges[0], e.ranges[-1]]:
        for w in sorted({prefix + lo, prefix + hi}):
            res.evals += 1
            res.nontrivial_extra += 1
            r = core.out(db.info, w)
            if r[0] != 'ok' or len(r[1]) <= depth:
                res.violation('%s|unreachable' % key, 'entry', case, {'line': lineno, 'witness': w, 'info': repr(r)[:200]})
                reach_ok = False
                continue
            part, props = r[1][depth]
            if len(part) != len(lo):
                res.violation('%s|shadowed-by-other-length' % key, 'entry', case, {'line': lineno, 'witness': w, 'part': part})
                reach_ok = False
            elif not superset(props, e.props):
                res.violation('%s|properties-not-returned' % key, 'entry', case,
                              {'line': lineno, 'witness': w, 'got': repr(props)[:200], 'entry': repr(e.props)[:200]})
                reach_ok = False
    if not reach_ok or e.problems:
        return  # one root cause per line: the consumer would only repeat it
    # consumer witness, completed with first children
    w = prefix + e.ranges[0][0]
    if name == 'cfi':
        w = prefix + mycomp
        while len(w) < 6:
            # complete with the first value character of the next level (reference walk), X if the level has none
            diag = {}
            numdbref.lookup(roots, w, diag)
            kids = []
            lines = diag.get('lines', [])
            last = [en for en in (_entries(name).get(l) for l in lines) if en and en[2] == len(w) - 1]
            for en in last:
                kids.extend(en[0].children)
            nxt = [k.ranges[0][0] for k in kids if k.ranges and ('v' in k.props or 'group' in k.props)]
            w += nxt[0] if nxt else 'X'
    elif name in ('imsi', 'nz/banks', 'id/loc', 'oui'):
        node = e
        while node.children:
            node = node.children[0]
            w += node.ranges[0][0]
    res.evals += 1
    res.nontrivial_extra += 1
    bad = consumer(name, e, path, w, depth)
    if bad:
        res.violation('%s|%s' % (key, bad[0]), 'entry', case, {'line': lineno, 'witness': w, 'detail': repr(bad[1])[:300]})
    if lineno % 1499 == 0:
        res.sample({'registry': name, 'line': lineno, 'entry': e.raw.strip()[:100], 'witness': w})


SUBS = {'entry': check_entry}

_cache = {}
_ecache = {}


def _parsed(name):
    if name not in _cache:
        p = os.path.join(core.REPO, 'stdnum', name + '.dat')
        roots, problems = numdbref.parse(open(p, encoding='utf-8').read())
        # consistent nesting: every shipped registry indents its levels by one constant step; a line indented by another
        # amount is silently attached to the wrong parent by the reader
        import collections
        steps = collections.Counter()
        pairs = []

        def walk(es):
            for e in es:
                for c in e.children:
                    steps[c.indent - e.indent] += 1
                    pairs.append((e, c))
                walk(e.children)
        walk(roots)
        if len(steps) > 1:
            usual = steps.most_common(1)[0][0]
            for e, c in pairs:
                if c.indent - e.indent != usual:
                    c.problems.append('inconsistent-indent-step')
                    problems.append((c.lineno, 'inconsistent-indent-step', c.raw.strip()[:80]))
        _cache[name] = (roots, problems)
    return _cache[name]


def _entries(name):
    if name not in _ecache:
        roots, _ = _parsed(name)
        d = {}

        def comp(e, es):
            if name == 'cfi' and e.ranges[0][0] != e.ranges[0][1]:
                # attribute holder line (A-Z): use a sibling character that carries a value, else X (not applicable)
                for sib in es:
                    if sib is not e and sib.ranges and 'v' in sib.props:
                        return sib.ranges[0][0]
                return 'X'
            return e.ranges[0][0]

        def walk(es, path, depth):
            for e in es:
                d[e.lineno] = (e, path, depth, comp(e, es) if e.ranges else '')
                if e.ranges:
                    walk(e.children, path + [comp(e, es)], depth + 1)
        walk(roots, [], 0)
        _ecache[name] = d
    return _ecache[name]


def shard(a):
    res = core.Result()
    name = a['name']
    lines = sorted(_entries(name))
    for ln in lines[a['part']::a['parts']]:
        check_entry({'name': name, 'line': ln}, res)
    res.notes['lines_per_registry'] = {name: len(lines[a['part']::a['parts']])}
    return res


def run(ctx):
    core.number_modules()
    args = []
    for name, _ in registries():
        parts = 16 if name == 'oui' else 2 if name in ('imsi', 'cn/loc', 'at/postleitzahl', 'nz/banks') else 1
        for i in range(parts):
            args.append({'shard': name, 'name': name, 'part': i, 'parts': parts})
    res = core.run_shards(shard, args)
    res.notes['registries'] = len(registries())
    return core.finish(ctx, res, LEVEL, RULE, ASSUME, SUBS, extra={'exhaustive': True})
