"""C16 - GS1-128 decoding and encoding are mutually consistent."""
from hypothesis import strategies as st

from vf import core
from vf.refs import gs1model

LEVEL = 'exploration'
RULE = ('1..5 distinct registered AIs (every AI reached; per-AI counts in notes) with values drawn from an independent format-grammar '
        'value model x separator in {none, GS, |, ~} x parentheses on/off; (a) element string assembled by an independent encoder '
        '(drawn field order, FNC1 termination or documented padding): info(s) returns, info(validate(s))==info(s), validate is a fixed '
        'point; (b) mapping: info(encode(d))==d; non-trivial = >=2 AIs with a variable-length field not in last position, decimals '
        'with implied places, day-00 dates, two-part values; distinct by (string|mapping, separator, parentheses)')
ASSUME = ['values avoid the separator character and parentheses (compact() documents parentheses as separators)',
          'decimal indicator: 0..k-1 for fixed N<k>, 0..min(9,digits) for N..<k>', 'dates 2000-2049',
          'info(s)==generating mapping is only a diagnostic, not asserted (statement relates info(validated) to info(input))']
SEPS = ['', '', '\x1d', '|', '~', '[FNC1]', '<GS>']


def classify(items, vals, sep):
    cls = []
    a = gs1model.ais()
    if len(items) >= 2 and any(a[ai].get('fnc1') for ai, _ in items[:-1]):
        cls.append('variable-not-last')
    for ai, enc in items:
        p = a[ai]
        if p['type'] == 'decimal' and enc[0] != '0':
            cls.append('decimal-places>0')
        if p['type'] == 'date' and len(enc) == 6 and enc.endswith('00'):
            cls.append('day-00')
        if isinstance(vals.get(ai), tuple):
            cls.append('two-part-value')
    return cls


def _fmt(ai):
    p = gs1model.ais()[ai]
    return '%s:%s' % (p['format'], p['type'])


def culprits(items, sep):
    """Types of the fields whose handling differs from the plain case: padded non-last variable fields."""
    a = gs1model.ais()
    if sep:
        return '+'.join(sorted(set(a[ai]['type'] for ai, _ in items)))
    c = set()
    for ai, enc in items[:-1]:
        p = a[ai]
        if p.get('fnc1') and len(enc) < gs1model.maxlen(p['format'], p['type']):
            c.add('padded-' + p['type'])
    return '+'.join(sorted(c)) or 'no-padding'


def prop_string(case, res, single=False):
    """case: {'items': [[ai, enc]...], 'sep', 'parens'} -> element string by the independent encoder."""
    if not single and len(case['items']) > 1:
        # attribute a failure to a single AI where possible (root-cause buckets)
        tmp = core.Result()
        for it in case['items']:
            prop_string({'items': [it], 'sep': case['sep'], 'parens': case['parens']}, tmp, single=True)
        if tmp.viol:
            res.evals += tmp.evals
            for b, rec in tmp.viol.items():
                res.violation(b, rec['sub'], rec['case'], rec['detail'])
            return
        if not case.get('minimal'):
            # greedy removal of AIs while the case still fails: buckets name the minimal culprit set
            tmp = core.Result()
            prop_string(dict(case, minimal=True), tmp)
            if tmp.viol:
                items = list(case['items'])
                i = 0
                while i < len(items) and len(items) > 2:
                    trial = items[:i] + items[i + 1:]
                    t2 = core.Result()
                    prop_string({'items': trial, 'sep': case['sep'], 'parens': case['parens'], 'minimal': True}, t2)
                    if t2.viol:
                        items = trial
                    else:
                        i += 1
                case = {'items': items, 'sep': case['sep'], 'parens': case['parens'], 'minimal': True}
    m = core.mod('gs1_128')
    items = [tuple(x) for x in case['items']]
    sep, parens = case['sep'], case['parens']
    s = gs1model.build(items, sep, parens)
    res.evals += 1
    if s is None:
        res.hist['discarded:order-not-expressible-without-separator'] += 1
        return
    cls = classify(items, {}, sep)
    for c in cls:
        res.hist['class:' + c] += 1
    for ai, _ in items:
        res.hist['ai:' + ai] += 1
    if cls:
        res.nt('s', s, sep)
    kinds = _fmt(items[0][0]) if len(items) == 1 else culprits(items, sep)
    ctx = 'sep=%s' % ('yes' if sep else 'no')
    i1 = core.out(m.info, s, sep)
    if i1[0] != 'ok':
        res.violation('string|info-refuses:%s|%s' % (i1[1], kinds), 'string', case, {'s': s, 'out': [str(t) for t in i1]})
        return
    v = core.out(m.validate, s, sep)
    if v[0] != 'ok':
        res.violation('string|validate-refuses:%s|%s' % (v[1], kinds), 'string', case, {'s': s, 'out': [str(t) for t in v]})
        return
    i2 = core.out(m.info, v[1], sep)
    if i2 != i1:
        diff = sorted(k for k in set(i1[1]) | set(i2[1] if i2[0] == 'ok' else ()) if i2[0] != 'ok' or i1[1].get(k) != i2[1].get(k))
        canon_items = sorted(items, key=lambda it: (bool(gs1model.ais()[it[0]].get('fnc1')), it[0]))
        types = kinds if len(items) == 1 else culprits(canon_items, sep)
        res.violation('string|validated-decodes-differently|%s' % (types,), 'string', case,
                      {'s': s, 'validated': v[1], 'info(s)': repr(i1[1])[:200], 'info(validated)': repr(i2)[:200]})
    v2 = core.out(m.validate, v[1], sep)
    if v2 != v:
        canon_items = sorted(items, key=lambda it: (bool(gs1model.ais()[it[0]].get('fnc1')), it[0]))
        res.violation('string|validate-not-fixed-point|%s' % (kinds if len(items) == 1 else culprits(canon_items, sep),), 'string', case, {'s': s, 'first': v[1], 'second': [str(t) for t in v2]})
    if case.get('vals') is not None and i1[1] != dict((k, core.dec(x)) for k, x in case['vals'].items()):
        res.hist['diagnostic:info(s)!=generating-mapping'] += 1
    if res.evals % 53 == 1:
        res.sample({'s': s, 'separator': sep, 'info': repr(i1[1])[:160], 'validated': v[1]})


def prop_mapping(case, res, single=False):
    """case: {'vals': {ai: spec}, 'sep', 'parens'}"""
    if not single and len(case['vals']) > 1:
        tmp = core.Result()
        for k, x in case['vals'].items():
            prop_mapping({'vals': {k: x}, 'sep': case['sep'], 'parens': case['parens']}, tmp, single=True)
        if tmp.viol:
            res.evals += tmp.evals
            for b, rec in tmp.viol.items():
                res.violation(b, rec['sub'], rec['case'], rec['detail'])
            return
        if not case.get('minimal'):
            tmp = core.Result()
            prop_mapping(dict(case, minimal=True), tmp)
            if tmp.viol:
                keys = sorted(case['vals'])
                i = 0
                while i < len(keys) and len(keys) > 2:
                    trial = keys[:i] + keys[i + 1:]
                    t2 = core.Result()
                    prop_mapping({'vals': dict((k, case['vals'][k]) for k in trial), 'sep': case['sep'], 'parens': case['parens'], 'minimal': True}, t2)
                    if t2.viol:
                        keys = trial
                    else:
                        i += 1
                case = {'vals': dict((k, case['vals'][k]) for k in keys), 'sep': case['sep'], 'parens': case['parens'], 'minimal': True}
    m = core.mod('gs1_128')
    d = dict((k, core.dec(x)) for k, x in case['vals'].items())
    sep, parens = case['sep'], case['parens']
    res.evals += 1
    a = gs1model.ais()
    var = [k for k in sorted(d) if a[k].get('fnc1')]
    cls = []
    if len(var) >= 2 or (var and len(d) >= 2):
        cls.append('map:variable-present')
    for c in cls:
        res.hist['class:' + c] += 1
    res.nt('m', core.canon(case['vals']), sep, parens)
    ctx = 'sep=%s' % ('yes' if sep else 'no')
    e = core.out(m.encode, d, sep, parens)
    kinds = _fmt(list(d)[0]) if len(d) == 1 else '+'.join(sorted(set(a[k]['type'] for k in d)))
    if e[0] != 'ok':
        res.violation('mapping|encode-refuses:%s|%s' % (e[1], kinds), 'mapping', case, {'map': repr(d)[:200], 'out': [str(t) for t in e]})
        return
    b = core.out(m.info, e[1], sep)
    if b != ('ok', d):
        if b[0] == 'ok':
            diff = sorted(k for k in set(d) | set(b[1]) if d.get(k) != b[1].get(k) or type(d.get(k)) is not type(b[1].get(k)) and not isinstance(d.get(k), (str, int)))
        else:
            diff = sorted(d)
        if len(d) == 1:
            types = _fmt(list(d)[0])
        elif sep:
            types = '+'.join(sorted(set(a.get(k, {}).get('type', '?') for k in diff)))
        else:
            types = '+'.join(sorted(set('padded-' + a[k]['type'] for k in var[:-1]))) or 'no-padding'
        res.violation('mapping|roundtrip-differs:%s|%s' % (b[0] if b[0] != 'ok' else 'value', types), 'mapping', case,
                      {'map': repr(d)[:200], 'encoded': e[1], 'decoded': repr(b)[:200]})
    if res.evals % 53 == 1:
        res.sample({'mapping': repr(d)[:160], 'separator': sep, 'parentheses': parens, 'encoded': e[1]})


SUBS = {'string': prop_string, 'mapping': prop_mapping}


@st.composite
def cases(draw, focus):
    allais = sorted(a for a in gs1model.ais() if gs1model.modelled(a))
    sep = draw(st.sampled_from(SEPS))
    parens = draw(st.booleans())
    k = draw(st.integers(1, 5))
    chosen = [focus] if focus else []
    while len(chosen) < k:
        ai = draw(st.sampled_from(allais))
        # an AI that is a prefix of / shares the registry key with a chosen one would be ambiguous in a mapping
        if ai not in chosen:
            chosen.append(ai)
    order = draw(st.permutations(chosen))
    if draw(st.booleans()):
        a = gs1model.ais()
        order = [x for x in order if not a[x].get('fnc1')] + [x for x in order if a[x].get('fnc1')]
    items, vals = [], {}
    for ai in order:
        enc, val = draw(gs1model.value(ai, sep))
        items.append([ai, enc])
        vals[ai] = core.enc(val)
    return {'items': items, 'vals': vals, 'sep': sep, 'parens': parens}


def both(case, res):
    prop_string(case, res)
    prop_mapping({'vals': case['vals'], 'sep': case['sep'], 'parens': case['parens']}, res)


def shard(a):
    res = core.Result()
    for ai in a['ais']:
        core.drive(both, cases(ai), a['n'], (a['seed'], 'C16', ai), res, shrink_skip=a['known'], max_shrink_buckets=3)
    core.drive(both, cases(None), a['nfree'], (a['seed'], 'C16', 'free', a['i']), res, shrink_skip=a['known'], max_shrink_buckets=3)
    return res


def run(ctx):
    core.number_modules()
    allais = sorted(a for a in gs1model.ais() if gs1model.modelled(a))
    nshard = 16
    args = [{'shard': i, 'i': i, 'ais': allais[i::nshard], 'n': ctx.q(12, 300), 'nfree': ctx.q(150, 6000), 'seed': ctx.seed,
             'known': ctx.known_buckets} for i in range(nshard)]
    res = core.run_shards(shard, args)
    per_ai = dict((k[3:], v) for k, v in res.hist.items() if str(k).startswith('ai:'))
    res.notes['ais_registered'] = len(gs1model.ais())
    res.notes['ais_not_modelled'] = sorted(a for a in gs1model.ais() if not gs1model.modelled(a))
    res.notes['ais_exercised'] = len(per_ai)
    res.notes['min_cases_per_ai'] = min(per_ai.values()) if per_ai else 0
    for k in [k for k in res.hist if str(k).startswith('ai:')]:
        del res.hist[k]
    if len(per_ai) < len(allais):
        res.errors.append('AIs never exercised: %s' % sorted(set(allais) - set(per_ai))[:10])
    return core.finish(ctx, res, LEVEL, RULE, ASSUME, SUBS)
