"""C05 - check-digit generators and validators agree."""
import string

from hypothesis import strategies as st

from vf import core, gen

LEVEL = 'exploration'
RULE = ('per generator function of a hand-written convention table (argument projection, check slice, applicability, documented '
        'alternatives): corpus+synthesised valid numbers; (a) generator(arg(v)) equals the check character(s) present, (b) every other '
        'alphanumeric character at each single check position makes the number invalid (exhaustive, 35 alternatives per position) '
        'unless documented, (c) a same-class mutated payload completed with the generated check is never rejected with '
        'InvalidChecksum; non-trivial = every (module, function, number); distinct by (module, function, number)')
ASSUME = ['iban: generic rules only (check_country=False) because a mutated BBAN is not well-formed for the national validators',
          'a mutated payload on which the generator itself raises is not well-formed and is skipped (counted)',
          'conventions transcribed from each validate() at design time (frozen table)',
          'modules where a second scheme may legitimately accept another check digit (bg.vat 10-digit, cz.dic 9/10-digit persons) are '
          'excluded from clause (b); whitelisted do.rnc/do.cedula numbers are outside clause (a)',
          'mx.rfc: valid means validate(v, validate_check_digits=True)']

ALNUM = string.digits + string.ascii_uppercase


def T(mod, fn, arg, sl, applies=None, alt=False, vopts=None, unique=True):
    return dict(mod=mod, fn=fn, arg=arg, sl=sl, applies=applies, alt=alt, vopts=vopts or {}, unique=unique)


whole = lambda v: v  # noqa: E731
init = lambda v: v[:-1]  # noqa: E731
LAST = (-1, None)
LAST2 = (-2, None)

TABLE = [
    T('ar.cbu', 'calc_check_digit', lambda v: v[:7], (7, 8)), T('ar.cbu', 'calc_check_digit', lambda v: v[8:-1], LAST),
    T('ar.cuit', 'calc_check_digit', init, LAST), T('at.tin', 'calc_check_digit', whole, LAST), T('at.uid', 'calc_check_digit', init, LAST),
    T('at.vnr', 'calc_check_digit', whole, (3, 4)), T('au.abn', 'calc_check_digits', lambda v: v[2:], (0, 2)),
    T('au.acn', 'calc_check_digit', whole, LAST), T('bg.egn', 'calc_check_digit', init, LAST), T('bg.pnf', 'calc_check_digit', init, LAST),
    T('bg.vat', 'calc_check_digit_legal', init, LAST, applies=lambda v: len(v) == 9),
    T('br.cnpj', 'calc_check_digits', whole, LAST2), T('by.unp', 'calc_check_digit', whole, LAST),
    T('ca.bc_phn', 'calc_check_digit', lambda v: v[1:9], (9, 10)), T('casrn', 'calc_check_digit', init, LAST),
    T('ch.esr', 'calc_check_digit', init, LAST), T('ch.uid', 'calc_check_digit', lambda v: v[3:-1], LAST),
    T('cl.rut', 'calc_check_digit', init, LAST), T('cn.ric', 'calc_check_digit', whole, LAST), T('cn.uscc', 'calc_check_digit', whole, LAST),
    T('co.nit', 'calc_check_digit', init, LAST), T('cusip', 'calc_check_digit', init, LAST), T('cy.vat', 'calc_check_digit', init, LAST),
    T('cz.dic', 'calc_check_digit_legal', init, LAST, applies=lambda v: len(v) == 8),
    T('cz.dic', 'calc_check_digit_special', lambda v: v[1:-1], LAST, applies=lambda v: len(v) == 9 and v[0] == '6'),
    T('do.rnc', 'calc_check_digit', init, LAST, applies=lambda v: True, alt='whitelist'),
    T('ean', 'calc_check_digit', init, LAST), T('ee.ik', 'calc_check_digit', whole, LAST), T('ee.registrikood', 'calc_check_digit', whole, LAST),
    T('es.ccc', 'calc_check_digits', whole, (8, 10)), T('es.cif', 'calc_check_digits', init, LAST, alt='two'),
    T('es.cups', 'calc_check_digits', whole, (18, 20)), T('es.dni', 'calc_check_digit', init, LAST), T('es.nie', 'calc_check_digit', init, LAST),
    T('es.referenciacatastral', 'calc_check_digits', whole, (18, 20)), T('eu.at_02', 'calc_check_digits', whole, (2, 4)),
    T('eu.ecnumber', 'calc_check_digit', init, LAST), T('eu.eic', 'calc_check_digit', whole, LAST), T('figi', 'calc_check_digit', init, LAST),
    T('fr.nif', 'calc_check_digits', whole, (-3, None)), T('fr.nir', 'calc_check_digits', whole, (13, 15)),
    T('gb.sedol', 'calc_check_digit', init, LAST), T('gb.upn', 'calc_check_digit', lambda v: v[1:], (0, 1)),
    T('gb.utr', 'calc_check_digit', lambda v: v[1:], (0, 1)), T('gh.tin', 'calc_check_digit', whole, LAST),
    T('gr.vat', 'calc_check_digit', init, LAST), T('gt.nit', 'calc_check_digit', init, LAST), T('iban', 'calc_check_digits', whole, (2, 4), vopts={'check_country': False}),
    T('ie.vat', 'calc_check_digit', lambda v: v[:7] + v[8:], (7, 8), applies=lambda v: v[:7].isdigit()),
    T('ie.vat', 'calc_check_digit', lambda v: v[2:7] + v[0], (7, 8), applies=lambda v: not v[:7].isdigit()),
    T('imo', 'calc_check_digit', init, LAST), T('isin', 'calc_check_digit', init, LAST), T('iso6346', 'calc_check_digit', init, LAST),
    T('issn', 'calc_check_digit', init, LAST), T('it.aic', 'calc_check_digit', whole, LAST),
    T('it.codicefiscale', 'calc_check_digit', init, LAST, applies=lambda v: len(v) == 16), T('jp.cn', 'calc_check_digit', lambda v: v[1:], (0, 1)),
    T('kr.rrn', 'calc_check_digit', init, LAST), T('lt.asmens', 'calc_check_digit', whole, LAST), T('lt.pvm', 'calc_check_digit', init, LAST),
    T('lu.tva', 'calc_check_digits', lambda v: v[:6], LAST2), T('lv.pvn', 'calc_check_digit_pers', init, LAST, applies=lambda v: v[0] <= '3'),
    T('md.idno', 'calc_check_digit', whole, LAST), T('me.pib', 'calc_check_digit', whole, LAST),
    T('meid', 'calc_check_digit', init, LAST, applies=lambda v: len(v) == 15, vopts={'strip_check_digit': False}),
    T('mk.edb', 'calc_check_digit', whole, LAST), T('mu.nid', 'calc_check_digit', whole, LAST), T('mx.curp', 'calc_check_digit', whole, LAST),
    T('mx.rfc', 'calc_check_digit', init, LAST, applies=lambda v: len(v) >= 12, vopts={'validate_check_digits': True}),
    T('no.fodselsnummer', 'calc_check_digit1', whole, (-2, -1)), T('no.fodselsnummer', 'calc_check_digit2', whole, LAST),
    T('nz.ird', 'calc_check_digit', init, LAST), T('pe.cui', 'calc_check_digits', whole, LAST, applies=lambda v: len(v) == 9, alt='two'),
    T('pe.ruc', 'calc_check_digit', whole, LAST), T('pl.pesel', 'calc_check_digit', init, LAST), T('pl.regon', 'calc_check_digit', init, LAST),
    T('pl.regon', 'calc_check_digit', lambda v: v[:8], (8, 9), applies=lambda v: len(v) == 14),
    T('pt.cc', 'calc_check_digit', init, LAST), T('pt.nif', 'calc_check_digit', init, LAST), T('py.ruc', 'calc_check_digit', init, LAST),
    T('ro.cnp', 'calc_check_digit', init, LAST), T('ro.cui', 'calc_check_digit', init, LAST),
    T('ru.inn', 'calc_company_check_digit', whole, LAST, applies=lambda v: len(v) == 10),
    T('ru.inn', 'calc_personal_check_digits', whole, LAST2, applies=lambda v: len(v) == 12), T('ru.ogrn', 'calc_check_digit', whole, LAST),
    T('sg.uen', 'calc_business_check_digit', whole, LAST, applies=lambda v: len(v) == 9),
    T('sg.uen', 'calc_local_company_check_digit', whole, LAST, applies=lambda v: len(v) == 10 and v[0].isdigit()),
    T('sg.uen', 'calc_other_check_digit', whole, LAST, applies=lambda v: len(v) == 10 and not v[0].isdigit()),
    T('si.ddv', 'calc_check_digit', init, LAST), T('si.emso', 'calc_check_digit', whole, LAST), T('si.maticna', 'calc_check_digit', whole, (6, 7)),
    T('sv.nit', 'calc_check_digit', whole, LAST), T('th.moa', 'calc_check_digit', whole, LAST), T('th.pin', 'calc_check_digit', whole, LAST),
    T('tr.tckimlik', 'calc_check_digits', whole, LAST2), T('tr.vkn', 'calc_check_digit', whole, LAST), T('ua.edrpou', 'calc_check_digit', whole, LAST),
    T('ua.rntrc', 'calc_check_digit', whole, LAST), T('us.rtn', 'calc_check_digit', init, LAST), T('uy.rut', 'calc_check_digit', whole, LAST),
    T('ve.rif', 'calc_check_digit', whole, LAST), T('vn.mst', 'calc_check_digit', whole, (9, 10)),
]
for i, t in enumerate(TABLE):
    t['id'] = '%s.%s#%d' % (t['mod'], t['fn'], i)
BYID = dict((t['id'], t) for t in TABLE)
NO_CLAUSE_B = set(['bg.vat', 'cz.dic', 'do.rnc', 'lv.pvn'])


def put(v, sl, c):
    a, b = sl
    n = len(v)
    a = a if a >= 0 else n + a
    b = n if b is None else (b if b >= 0 else n + b)
    return v[:a] + c + v[b:]


def get(v, sl):
    return v[sl[0]:sl[1]]


def prop(case, res):
    t = BYID[case['t']]
    m = core.mod(t['mod'])
    v = case['v']
    vopts = t['vopts']
    res.evals += 1
    o = core.out(m.validate, v, **vopts)
    if o != ('ok', v) or (t['applies'] and not t['applies'](v)):
        res.hist['not-in-domain'] += 1
        return
    key = '%s.%s' % (t['mod'], t['fn'])
    res.nt(t['id'], v)
    res.hist['numbers:' + key] += 1
    fn = getattr(m, t['fn'])
    present = get(v, t['sl'])
    res.hist['check-char-class:' + ('digit' if present.isdigit() else 'letter/mixed')] += 1
    g = core.out(fn, t['arg'](v))
    if g[0] != 'ok' or not isinstance(g[1], str):
        res.violation('%s|generator-fails' % key, 'c05', case, {'number': v, 'out': [str(x) for x in g]})
        return
    if t['alt'] == 'two':
        ok = present in g[1]
    else:
        ok = g[1] == present
    if not ok:
        if t['alt'] == 'whitelist':
            res.hist['whitelisted(do.rnc)'] += 1
        else:
            res.violation('%s|generated!=present' % key, 'c05', case, {'number': v, 'generated': g[1], 'present': present})
    # (a') a generator that is handed the whole number computes the check from the rest of it: what stands at the check
    # position(s) (a placeholder, a stale check digit) must not matter
    if t['arg'] is whole:
        a, b = t['sl']
        n = len(v)
        a = a if a >= 0 else n + a
        b = n if b is None else (b if b >= 0 else n + b)
        for k in range(2):
            w = list(v)
            for i in range(a, b):
                al = gen.cls(v[i]) or v[i]
                w[i] = al[(al.index(v[i]) + 1 + 3 * k) % len(al)]
            w = ''.join(w)
            res.evals += 1
            g2 = core.out(fn, w)
            if g2 != g:
                res.violation('%s|generator-depends-on-the-check-position' % key, 'c05', case,
                              {'number': v, 'with-other-check': w, 'generated': [str(x) for x in g], 'generated-then': [str(x) for x in g2]})
                break
    # (b) alternatives at each single check position
    if t['mod'] not in NO_CLAUSE_B:
        a, b = t['sl']
        n = len(v)
        a = a if a >= 0 else n + a
        b = n if b is None else (b if b >= 0 else n + b)
        allowed = set(g[1]) if t['alt'] == 'two' else set()
        for pos in range(a, b):
            for c in ALNUM:
                if c == v[pos] or c in allowed:
                    continue
                w = v[:pos] + c + v[pos + 1:]
                res.evals += 1
                r = core.out(m.validate, w, **vopts)
                if r[0] == 'ok':
                    res.violation('%s|alternative-check-accepted' % key, 'c05', case, {'number': v, 'also-valid': w})
                    break
                if c in '05AX':
                    iv = core.out(m.is_valid, w, **dict((k, x) for k, x in vopts.items() if k != 'strip_check_digit'))
                    if iv == ('ok', True):
                        res.violation('%s|alternative-check-accepted-by-is_valid' % key, 'c05', case, {'number': v, 'also-valid': w})
                        break
    # (c) mutated payload completed with the generated check
    mutlist = case.get('muts') or []
    if case.get('joint') and mutlist:
        w0 = list(v)
        for i, c in mutlist:
            w0[i] = c
        mutlist = [(mutlist[-1][0], mutlist[-1][1], ''.join(w0))]
    for mut in mutlist:
        i, c = mut[0], mut[1]
        a, b = t['sl']
        n = len(v)
        a2 = a if a >= 0 else n + a
        b2 = n if b is None else (b if b >= 0 else n + b)
        if i >= n or a2 <= i < b2 or gen.cls(v[i]) is None or c not in gen.cls(v[i]):
            continue
        w = mut[2] if len(mut) > 2 else v[:i] + c + v[i + 1:]
        g2 = core.out(fn, t['arg'](w))
        res.evals += 1
        if g2[0] != 'ok' or not isinstance(g2[1], str):
            res.hist['clause-c:payload-not-well-formed-for-generator'] += 1
            continue
        chk = g2[1] if t['alt'] != 'two' else g2[1][0]
        w2 = put(w, t['sl'], chk)
        if t['applies'] and not t['applies'](w2):
            res.hist['clause-c:mutation-changed-the-number-kind'] += 1
            continue
        r = core.out(m.validate, w2, **vopts)
        res.hist['clause-c:' + (r[1] if r[0] == 'verr' else r[0])] += 1
        if r[0] == 'verr' and r[1] == 'InvalidChecksum':
            # a second, independent check elsewhere in the number may be what fails (ar.cbu, pl.regon 14, no.fodselsnummer ...)
            others = [u for u in TABLE if u['mod'] == t['mod'] and u is not t and (not u['applies'] or u['applies'](w2))]
            fixed = w2
            for u in others:
                gu = core.out(getattr(m, u['fn']), u['arg'](fixed))
                if gu[0] == 'ok' and isinstance(gu[1], str):
                    fixed = put(fixed, u['sl'], gu[1] if u['alt'] != 'two' else gu[1][0])
            g3 = core.out(fn, t['arg'](fixed))
            if g3[0] == 'ok':
                fixed = put(fixed, t['sl'], g3[1] if t['alt'] != 'two' else g3[1][0])
            r2 = core.out(m.validate, fixed, **vopts)
            if r2[0] == 'verr' and r2[1] == 'InvalidChecksum':
                res.violation('%s|completed-payload-rejected-InvalidChecksum' % key, 'c05', case, {'completed': fixed, 'from': v})
    # (c) for the shorter presentations a validator accepts by padding (gr.vat 8 digits, ...): the payload without its
    # leading zeros, completed with the generated check character. Reported only if another check character is accepted
    # for that very payload, i.e. generator and validator demonstrably disagree.
    if t['arg'] is init and t['sl'] == LAST and v[:1] == '0' and t['alt'] != 'two':
        k = 0
        while k < len(v) - 2 and v[k] == '0':
            k += 1
            pl = v[k:-1]
            g4 = core.out(fn, pl)
            res.evals += 1
            if g4[0] != 'ok' or not isinstance(g4[1], str):
                continue
            r = core.out(m.validate, pl + g4[1], **vopts)
            res.hist['clause-c-short:' + (r[1] if r[0] == 'verr' else r[0])] += 1
            if r[0] == 'verr' and r[1] == 'InvalidChecksum':
                other = [c for c in ALNUM if c != g4[1] and core.out(m.validate, pl + c, **vopts)[0] == 'ok']
                if other:
                    res.violation('%s|short-payload-completed-rejected-InvalidChecksum' % key, 'c05', case,
                                  {'payload': pl, 'generated': g4[1], 'accepted-instead': other})
    if res.hist['numbers:' + key] % 13 == 1:
        res.sample({'module': t['mod'], 'generator': t['fn'], 'number': v, 'check': present})


SUBS = {'c05': prop}


def shard(a):
    res = core.Result()
    t = BYID[a['t']]
    name = t['mod']
    valid = gen.valid_numbers(name, **t['vopts'])
    mut = st.lists(st.tuples(st.integers(0, 24), st.sampled_from(ALNUM + string.ascii_lowercase)), max_size=3)
    strat = st.fixed_dictionaries({'t': st.just(t['id']), 'v': valid, 'muts': mut})
    for v in gen.pool(name, **t['vopts'])[:a['npool']] + gen.edge_pool(name, **t['vopts']):
        prop({'t': t['id'], 'v': v, 'muts': []}, res)
    core.drive(prop, strat, a['n'], (a['seed'], 'C05', t['id']), res, shrink_skip=a['known'])
    # clause (c) systematically: the last two payload digits of one valid number run through all 100 values, so that every
    # value of the generated check (98, 10 -> X, 0, ...) is produced at least once
    base = [v for v in gen.pool(name, **t['vopts']) if not t['applies'] or t['applies'](v)][:1]
    for v in base:
        n = len(v)
        a0, b0 = t['sl']
        a0 = a0 if a0 >= 0 else n + a0
        b0 = n if b0 is None else (b0 if b0 >= 0 else n + b0)
        pos = [i for i in range(n) if v[i].isdigit() and not a0 <= i < b0][-2:]
        if len(pos) == 2:
            for x in string.digits:
                for y in string.digits:
                    prop({'t': t['id'], 'v': v, 'muts': [[pos[0], x], [pos[1], y]], 'joint': True}, res)
    return res


def run(ctx):
    core.number_modules()
    args = [{'shard': t['id'], 't': t['id'], 'n': ctx.q(200, 5000), 'npool': ctx.q(100, 3000), 'seed': ctx.seed, 'known': ctx.known_buckets} for t in TABLE]
    res = core.run_shards(shard, args)
    res.notes['generator_table_rows'] = len(TABLE)
    res.notes['generators_with_few_numbers'] = sorted(set('%s.%s' % (t['mod'], t['fn']) for t in TABLE
                                                           if res.hist.get('numbers:%s.%s' % (t['mod'], t['fn']), 0) < 30))
    return core.finish(ctx, res, LEVEL, RULE, ASSUME, SUBS)
