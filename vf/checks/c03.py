"""C03 - validation outcome depends only on compact()."""
from hypothesis import strategies as st

from vf import core, gen

LEVEL = 'exploration'
RULE = ('per module with compact(): pairs (x, y) where y is x decorated with characters/prefixes/case changes the module '
        'itself treats as presentation; pair used only if compact(x)==compact(y); x is a valid number, a same-class '
        'single-edit near-miss, a corpus invalid literal or alphabet garbage; non-trivial = x!=y with equal compact; '
        'distinct by (module, x, y)')
ASSUME = ['two rejections are equal whatever ValidationError subclass', 'pairs where either side raises a non-ValidationError are left to C01']
EXCLUDED = ['isan', 'meid', 'us.ssn', 'us.itin', 'us.ein', 'us.atin', 'us.tin']


def prop(case, res):
    name = case['mod']
    m = core.number_modules()[name]
    x, y = core.dec(case['x']), core.dec(case['y'])
    res.evals += 1
    cx, cy = core.out(m.compact, x), core.out(m.compact, y)
    if cx[0] != 'ok' or cx != cy:
        res.hist['discarded:compact-differs' if cx[0] == 'ok' and cy[0] == 'ok' else 'discarded:compact-raises'] += 1
        return
    ox, oy = core.out(m.validate, x), core.out(m.validate, y)
    if ox[0] == 'EXC' or oy[0] == 'EXC':
        res.hist['skipped:non-ValidationError (C01)'] += 1
        return
    if x != y:
        res.nt(name, x, y)
        res.hist['pair:' + ('accept' if ox[0] == 'ok' else 'reject')] += 1
    if ox[0] != oy[0]:
        res.violation('%s|accept-vs-reject' % name, 'c03', case, {'compact': cx[1], 'x': [str(t) for t in ox], 'y': [str(t) for t in oy]})
    elif ox[0] == 'ok' and ox[1] != oy[1]:
        res.violation('%s|accepted-values-differ' % name, 'c03', case, {'compact': cx[1], 'x': ox[1], 'y': oy[1]})
    if res.evals % 41 == 1:
        res.sample({'mod': name, 'x': x, 'y': y, 'compact': cx[1], 'outcome': ox[0]})


SUBS = {'c03': prop}


def strategy(name):
    valid = gen.valid_numbers(name)
    raw = st.sampled_from(gen.seeds(name))

    @st.composite
    def nearmiss(draw):
        v = draw(st.one_of(valid, raw))
        idx = [i for i, c in enumerate(v) if gen.cls(c)]
        if not idx:
            return v
        i = draw(st.sampled_from(idx))
        kind = draw(st.integers(0, 3))
        if kind == 0:
            return v[:i] + v[i + 1:]
        if kind == 1:
            return v[:i] + draw(st.sampled_from(gen.cls(v[i]))) + v[i:]
        return v[:i] + draw(st.sampled_from(gen.cls(v[i]))) + v[i + 1:]
    alpha = sorted(set(''.join(gen.pool(name)[:30]))) or list('0123456789')
    bases = [valid, raw, nearmiss(), nearmiss(), st.text(alphabet=st.sampled_from(alpha), min_size=1, max_size=24)]
    nm = gen.near_misses(name)
    if nm:
        bases.append(st.sampled_from(nm))

    @st.composite
    def pair(draw):
        x = draw(st.one_of(*bases))
        if draw(st.booleans()):
            x = draw(gen.decorations(name, st.just(x)))
        y = draw(gen.decorations(name, st.just(x)))
        k = draw(st.integers(0, 7))
        if k <= 2 and any(c.isalpha() for c in y):
            # case variants whether or not the probe found the format case-insensitive as a whole (the pair only counts
            # when compact() agrees): all upper, all lower, or one letter flipped
            if k == 0:
                y = draw(st.sampled_from([y.upper(), y.lower(), y.swapcase(), y.title()]))
            else:
                idx = [i for i, c in enumerate(y) if c.isalpha()]
                i = draw(st.sampled_from(idx))
                y = y[:i] + y[i].swapcase() + y[i + 1:]
        return {'mod': name, 'x': core.enc(x), 'y': core.enc(y)}
    return pair()


def shard(a):
    res = core.Result()
    name = a['mod']
    core.drive(prop, strategy(name), a['n'], (a['seed'], 'C03', name), res, shrink_skip=a['known'])
    # every corpus number once with fixed simple decorations (numbers on a module's exception lists, rare kinds)
    pr = gen.probe(name)
    seps = [c for c in ' -./' if c in pr['neutral']]
    for v in gen.pool(name)[:a['npool']]:
        ys = [' ' + v + ' ']
        if seps and len(v) > 2:
            ys.append(v[:1] + seps[0] + v[1:len(v) // 2] + seps[-1] + v[len(v) // 2:])
        if pr['lower'] or any(c.isalpha() for c in v):
            ys.append(v.lower())  # whether or not the probe of this tree says lower case is accepted: compact() decides
            ys.append(v[:-1] + v[-1:].lower())
        # separators that belong to the number written in another style: all of them, only the first, only the last
        sp = [i for i, c in enumerate(v) if c in '-:./ ']
        for alt in ('-', ':', '.', ' ') if sp and len(v) <= 40 else ():
            for idx in (sp, sp[:1], sp[-1:]):
                ys.append(''.join(alt if i in idx else c for i, c in enumerate(v)))
        for y in ys:
            prop({'mod': name, 'x': v, 'y': y}, res)
    # one separator-like character at every position (both ends included) of a few numbers: the pair counts wherever
    # compact() ignores the character, whatever the presentation probe says about it
    for v in gen.pool(name)[:8]:
        if len(v) > 40:
            continue
        for c in (' ', '-', '.', '/', ':', ',', '\t'):
            for i in range(len(v) + 1):
                prop({'mod': name, 'x': v, 'y': v[:i] + c + v[i:]}, res)
    used = res.hist['pair:accept'] + res.hist['pair:reject']
    res.notes['pairs_per_module'] = {name: used}
    return res


def run(ctx):
    mods = core.number_modules()
    names = [n for n, m in mods.items() if hasattr(m, 'compact') and n not in EXCLUDED]
    n = ctx.q(250, 5000)
    args = [{'shard': name, 'mod': name, 'n': n, 'npool': ctx.q(1000, 5000), 'seed': ctx.seed, 'known': ctx.known_buckets} for name in names]
    res = core.run_shards(shard, args)
    res.notes['modules'] = len(names)
    res.notes['modules_with_few_pairs'] = [k for k, v in res.notes.get('pairs_per_module', {}).items() if v < n * 0.2]
    return core.finish(ctx, res, LEVEL, RULE, ASSUME, SUBS)
