"""C17 - single typing errors in check-digit protected identifiers are rejected."""
from hypothesis import strategies as st

from vf import core, gen

LEVEL = 'exploration'
RULE = ('per listed module: corpus+synthesised valid numbers (incl. every IBAN registry country for iban); for each the complete '
        'neighbourhood: every position x every other character of the same class (digit->9, letter->25) and, for the '
        'transposition modules, every adjacent pair of different digits swapped; oracle is_valid(neighbour) is False; '
        'distinct by (module, number, position, replacement)')
ASSUME = ['module list fixed by reading each validator: the check covers every character of the canonical form (DESIGN C17); for '
          'es.cif, ca.bn, id.npwp, in_.epic, se.personnummer, fr.siret only the positions the Luhn check covers are substituted',
          'no.kontonr: 7-digit accounts only; imei: 15-digit only']

SUBST = ['isbn', 'ean', 'issn', 'ismn', 'imei', 'isni', 'iban', 'lei', 'iso11649', 'grid',
         'ca.sin', 'fr.siren', 'il.idnr', 'il.hp', 'se.orgnr', 'it.iva', 'gr.amka', 'gn.nifp', 'za.idnr', 'za.tin',
         'at.uid', 'no.kontonr', 'in_.gstin', 'in_.aadhaar', 'in_.vid', 'hr.oib', 'de.idnr', 'de.vat', 'rs.pib', 'ma.ice']
# national numbers in which the generic check covers only part of the canonical form (read from each validate()): the
# positions the Luhn check protects; the other characters (organisation letter, programme suffix, century) are not in the
# property's scope
PARTIAL = {
    'es.cif': lambda v: range(1, 9),
    'ca.bn': lambda v: range(0, 9),
    'id.npwp': lambda v: range(0, 9) if len(v) == 15 else range(1, 10) if v[0] == '0' else (),
    'in_.epic': lambda v: range(3, 10),
    'se.personnummer': lambda v: [i for i in range(len(v) - 11, len(v)) if i != len(v) - 5],
    'fr.siret': lambda v: range(len(v)) if not v.startswith('356000000') else (),
}
SUBST += sorted(PARTIAL)
# documented prefixed spellings (country code / label kept out of the canonical form), from the module docstrings
PREFIXED = {'it.iva': 'IT', 'at.uid': 'AT', 'hr.oib': 'HR', 'de.vat': 'DE', 'grid': 'GRID:', 'rs.pib': 'RS', 'se.orgnr': 'SE', 'fr.siren': 'FR'}
SWAP = ['isbn', 'issn', 'isni', 'iban', 'lei', 'iso11649', 'in_.aadhaar', 'in_.vid']


def in_scope(name, v):
    if name == 'imei':
        return len(v) == 15
    if name == 'no.kontonr':
        return len(v) == 7
    return True


def swap_scope(name, v):
    if name == 'isbn':
        return len(v) == 10
    return True


def prop(case, res):
    name = case['mod']
    m = core.number_modules()[name]
    x = case['x']
    o = core.out(m.validate, x)
    res.evals += 1
    if o[0] != 'ok' or o[1] != x or not in_scope(name, x):
        res.hist['not-in-domain'] += 1
        return
    res.hist['numbers:' + name] += 1
    if 'X' in x[-1:]:
        res.hist['class:check-character-X'] += 1
    covered = set(PARTIAL[name](x)) if name in PARTIAL else None
    for i, a in enumerate(x):
        alpha = gen.cls(a)
        if not alpha or (covered is not None and i not in covered):
            continue
        for b in alpha:
            if b == a:
                continue
            if name == 'fr.siret' and (x[:i] + b + x[i + 1:]).startswith('356000000'):
                continue  # La Poste establishments use another rule
            res.evals += 1
            res.nontrivial_extra += 1
            y = x[:i] + b + x[i + 1:]
            r = core.out(m.is_valid, y)
            if r != ('ok', False):
                res.violation('%s|substitution-%s|%s' % (name, 'accepted' if r[0] == 'ok' else 'crash', 'letter' if a.isalpha() else 'digit'),
                              'c17', case, {'number': x, 'pos': i, 'replacement': b, 'is_valid': [str(t) for t in r]})
            elif name == 'isbn' and (i + ord(b)) % 3 == 0:
                # the documented convert=True option must not weaken the check
                r2 = core.out(m.validate, y, convert=True)
                res.evals += 1
                if r2[0] == 'ok':
                    res.violation('isbn|substitution-accepted|convert=True', 'c17', case, {'number': x, 'pos': i, 'replacement': b, 'validate': r2[1]})
    pre = PREFIXED.get(name)
    if pre and res.hist['prefixed:' + name] < 40 and core.out(m.is_valid, pre + x) == ('ok', True):
        # the documented prefixed spelling is a valid number too: its letters are covered by the statement
        res.hist['prefixed:' + name] += 1
        for i, a in enumerate(pre):
            if not a.isalpha():
                continue
            for b in gen.cls(a):
                if b == a:
                    continue
                res.evals += 1
                res.nontrivial_extra += 1
                y = pre[:i] + b + pre[i + 1:] + x
                r = core.out(m.is_valid, y)
                if r != ('ok', False):
                    res.violation('%s|prefix-substitution-%s' % (name, 'accepted' if r[0] == 'ok' else 'crash'), 'c17', case,
                                  {'number': pre + x, 'pos': i, 'replacement': b, 'is_valid': [str(t) for t in r]})
    if name in SWAP and swap_scope(name, x):
        for i in range(len(x) - 1):
            a, b = x[i], x[i + 1]
            if a == b or not (a.isdigit() and b.isdigit()):
                continue
            res.evals += 1
            res.nontrivial_extra += 1
            y = x[:i] + b + a + x[i + 2:]
            r = core.out(m.is_valid, y)
            if r != ('ok', False):
                res.violation('%s|swap-%s' % (name, 'accepted' if r[0] == 'ok' else 'crash'), 'c17', case,
                              {'number': x, 'pos': i, 'is_valid': [str(t) for t in r]})
    if len(res.samples) < 4:
        res.sample({'mod': name, 'number': x, 'neighbours': 'all same-class substitutions' + (' + adjacent swaps' if name in SWAP else '')})


SUBS = {'c17': prop}


def both_classes(c):
    """Digits and upper case letters for a position holding either (alphanumeric payloads), else the character's class."""
    if c.isascii() and (c.isdigit() or c.isupper()):
        return gen.cls(c) + ''.join(x for x in '0123456789ABCDEFGHIJKLMNOPQRSTUVWXYZ' if x not in gen.cls(c))
    return gen.cls(c)


def shard(a):
    res = core.Result()
    name = a['mod']
    # every corpus number first (deterministic, complete), then synthesised ones
    for v in gen.pool(name)[:a['npool']]:
        prop({'mod': name, 'x': v}, res)
    # the two characters before the last one run through every pair of their classes (check character repaired): every
    # value of the running checksum, and with it every check character, occurs (a check of 0 / 10 / 'X' / a digit where
    # the corpus shows a letter)
    shapes = {}
    for v in gen.pool(name) + gen.edge_pool(name):
        shapes.setdefault((len(v), ''.join('d' if c.isdigit() else 'a' for c in v)), v)
    for v in list(shapes.values())[:4]:
        if len(v) < 5:
            continue
        p1, p2 = len(v) - 3, len(v) - 2
        if not (gen.cls(v[p1]) and gen.cls(v[p2])):
            continue
        done = set()
        for c1 in both_classes(v[p1]):
            for c2 in both_classes(v[p2]):
                w = gen.synth(name, v[:p1] + c1 + c2 + v[p2 + 1:], [(p1, c1), (p2, c2)])
                if w and w[p1:p2 + 1] == c1 + c2 and w not in done:
                    done.add(w)
                    res.hist['pair-sweep:' + name] += 1
                    prop({'mod': name, 'x': w}, res)
    strat = st.fixed_dictionaries({'mod': st.just(name), 'x': gen.valid_numbers(name, raw_fraction=20)})
    core.drive(prop, strat, a['n'], (a['seed'], 'C17', name), res, shrink_skip=a['known'])
    return res


def run(ctx):
    core.number_modules()
    args = []
    for name in SUBST:
        args.append({'shard': name, 'mod': name, 'n': ctx.q(400, 6000), 'npool': ctx.q(200, 3000), 'seed': ctx.seed, 'known': ctx.known_buckets})
    res = core.run_shards(shard, args)
    starved = [n for n in SUBST if res.hist.get('numbers:' + n, 0) < 20]
    res.notes['modules_with_few_numbers'] = starved
    return core.finish(ctx, res, LEVEL, RULE, ASSUME, SUBS)
