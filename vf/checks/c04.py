"""C04 - format() preserves the identity of a valid number."""
import inspect

from hypothesis import strategies as st

from vf import core, gen

LEVEL = 'exploration'
RULE = ('per module with format(): accepted presentations of corpus+synthesised valid numbers x documented format options; '
        'oracle (1) format returns str, (2) validate(format(x))==N(validate(x)) with N the documented normalisation table, '
        '(3) format(x)==format(validate(x)); non-trivial = format(x)!=x; distinct by (module, x, options)')
ASSUME = ['clause (2) is only asserted for the default separator or one the module own compact() removes',
          'meid: clause (3) asserted only when format= is given and add_check_digit=True (representation/check digit are documented as kept)']

SEP_MODULES = ['be.iban', 'es.iban', 'fr.nir', 'fr.siret', 'gb.nhs', 'grid', 'iban', 'imei', 'isan', 'isbn', 'ismn',
               'isrc', 'me.iban', 'meid', 'mx.rfc', 'no.iban']


def fopt_strategy(name):
    parts = {}
    if name in SEP_MODULES:
        parts['separator'] = st.sampled_from([' ', '-', '', '.', '/', ':', '  '])
    if name == 'imei':
        parts['add_check_digit'] = st.booleans()
    if name == 'isan':
        parts['strip_check_digits'] = st.booleans()
        parts['add_check_digits'] = st.booleans()
    if name == 'isbn':
        parts['convert'] = st.booleans()
    if name == 'meid':
        parts['format'] = st.sampled_from([None, 'hex', 'dec'])
        parts['add_check_digit'] = st.booleans()
    if name == 'de.stnr':
        parts['region'] = st.sampled_from(gen.DE_REGIONS)
    if not parts:
        return st.just({})

    @st.composite
    def s(draw):
        o = {}
        for k, strat in sorted(parts.items()):
            if draw(st.booleans()):
                o[k] = draw(strat)
        return o
    return s()


def luhn_digit(s):
    t = 0
    for i, c in enumerate(reversed(s)):
        d = int(c)
        if i % 2 == 0:
            d = d * 2
            if d > 9:
                d -= 9
        t += d
    return str((10 - t) % 10)


def expected_after_format(name, m, x, v, fo):
    """Return the set of acceptable values of validate(format(x, **fo)) (clause 2), or a callable comparison."""
    if name == 'ismn':
        return {'9790' + v[1:] if len(v) == 10 else v}
    if name == 'isil':
        parts = v.split('-')
        return {v, '-'.join([parts[0].upper()] + parts[1:])}
    if name == 'imei' and fo.get('add_check_digit') and len(v) == 14:
        return {v + luhn_digit(v)}
    return {v}


def prop(case, res):
    name = case['mod']
    m = core.number_modules()[name]
    x = core.dec(case['x'])
    fo = dict(case.get('fopts') or {})
    res.evals += 1
    vo = {}
    if name == 'de.stnr' and 'region' in fo:
        vo = {'region': fo['region']}
    ox = core.out(m.validate, x, **vo)
    if ox[0] != 'ok' or not isinstance(ox[1], str):
        res.hist['not-accepted'] += 1
        return
    v = ox[1]
    res.hist['accepted'] += 1
    ok = ','.join('%s=%s' % (k, fo[k]) for k in sorted(fo) if k != 'separator') or '-'
    f = core.out(m.format, x, **fo)
    if f[0] != 'ok' or not isinstance(f[1], str):
        res.violation('%s|format-fails:%s|%s' % (name, f[1] if f[0] != 'ok' else 'non-str', ok), 'c04', case, {'validated': v, 'format': [str(t) for t in f]})
        return
    fx = f[1]
    if fx != x:
        res.nt(name, x, sorted(fo.items()))
    # clause 3
    check3 = True
    if name == 'meid' and not (fo.get('format') and fo.get('add_check_digit')):
        check3 = False
    if check3:
        vv = v
        if name == 'isbn' and fo.get('convert'):
            vv = core.out(m.validate, x, convert=True)[1]
        f2 = core.out(m.format, vv, **fo)
        if f2 != f:
            res.violation('%s|format(x)!=format(validate(x))|%s' % (name, ok), 'c04', case,
                          {'validated': vv, 'format(x)': fx, 'format(validate(x))': [str(t) for t in f2]})
    # clause 2
    sep = fo.get('separator')
    if sep is None or sep == '' or all(c in gen.probe(name)['neutral'] for c in sep):
        if name == 'isan':
            strip = bool(fo.get('strip_check_digits')) and not fo.get('add_check_digits', True)
            kw = {'strip_check_digits': True} if strip else {'add_check_digits': True}
            a, b = core.out(m.validate, fx, **kw), core.out(m.validate, x, **kw)
            good = a[0] == 'ok' and a == b
            exp = [str(t) for t in b]
        elif name == 'isbn' and fo.get('convert'):
            a, b = core.out(m.validate, fx, convert=True), core.out(m.validate, x, convert=True)
            good = a[0] == 'ok' and a == b
            exp = [str(t) for t in b]
        else:
            a = core.out(m.validate, fx, **vo)
            expset = expected_after_format(name, m, x, v, fo)
            good = a[0] == 'ok' and a[1] in expset
            exp = sorted(expset)
        res.hist['clause2-checked'] += 1
        if not good:
            kind = 'rejected' if a[0] == 'verr' else 'crash' if a[0] == 'EXC' else 'different-number'
            res.violation('%s|validate(format(x)):%s|%s' % (name, kind, ok), 'c04', case,
                          {'validated': v, 'format(x)': fx, 'validate(format(x))': [str(t) for t in a], 'expected': exp})
    if res.hist['accepted'] % 31 == 1:
        res.sample({'mod': name, 'x': x, 'fopts': fo, 'format': fx, 'validate': v})


SUBS = {'c04': prop}


def strategy(name):
    valid = gen.valid_numbers(name)
    raw = st.sampled_from(gen.seeds(name))
    dec = gen.decorations(name, st.one_of(valid, valid, raw))
    cased = st.one_of(valid, raw).flatmap(lambda v: st.sampled_from([v.lower(), v.upper(), v.swapcase(), v.capitalize()]))
    parts = [dec, dec, valid, raw, cased]
    extra = gen.extra_valid(name)
    if extra is not None:
        parts += [extra, extra]
    x = st.one_of(*parts)
    return st.fixed_dictionaries({'mod': st.just(name), 'x': x.map(core.enc), 'fopts': fopt_strategy(name)})


def shard(a):
    res = core.Result()
    name = a['mod']
    core.drive(prop, strategy(name), a['n'], (a['seed'], 'C04', name), res, shrink_skip=a['known'])
    for v in gen.edge_pool(name) + gen.boundary_pool(name):
        # every character of the class at the first / last positions, every two-digit prefix (range-table boundaries)
        prop({'mod': name, 'x': v, 'fopts': {}}, res)
    res.notes['accepted_per_module'] = {name: res.hist['accepted']}
    return res


def run(ctx):
    mods = core.number_modules()
    names = [n for n, m in mods.items() if hasattr(m, 'format')]
    n = ctx.q(300, 6000)
    args = [{'shard': name, 'mod': name, 'n': n, 'seed': ctx.seed, 'known': ctx.known_buckets} for name in names]
    res = core.run_shards(shard, args)
    res.notes['modules'] = len(names)
    res.notes['modules_with_low_acceptance'] = [k for k, v in res.notes.get('accepted_per_module', {}).items() if v < n * 0.3]
    return core.finish(ctx, res, LEVEL, RULE, ASSUME, SUBS)
