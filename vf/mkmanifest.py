"""Regenerate MANIFEST.json from the table below (python -m vf.mkmanifest)."""
import json
import os

from vf import core

SETUP = ("/venv/bin/python -c 'import hypothesis' 2>/dev/null || /venv/bin/pip install --no-index --find-links "
         "/opt/veriftools/wheels --target /verif/.deps hypothesis")

# id -> (technique, level text, level note, design ref)
CHECKS = {
    'C01': ('Hypothesis-generated hostile values (edits of valid numbers, decorated numbers, long/Unicode text, non-strings) x option table x frozen clock; exception-class and is_valid<=>validate oracle; collect-then-shrink bucketing by (module, exception, frame); systematic position x suspicious-character sweeps (incl. leap-day numbers); coverage-guided atheris/libFuzzer campaign (16 shards) whose reported cases are decided by the same property function',
            'Structured random search over all 234 modules against the stated error contract; finds violations, does not prove absence.',
            'Options are well-typed; objects whose own dunder methods raise are outside the domain; clock frozen by a datetime shim inside stdnum modules.', '3/C01'),
    'C02': ('metamorphic idempotence: validate(validate(x))==validate(x) and no surrounding whitespace, over module-probed presentations and hostile edits of valid numbers x options x clock; separator insertion/replacement sweep; coverage-guided atheris/libFuzzer campaign with the fixed-point oracle in the target',
            'Property-based search per module; only accepted inputs are in the domain (acceptance rate reported).', 'Same options and frozen date for both calls.', '3/C02'),
    'C03': ('metamorphic relation over pairs (x, decorate(x)) with equal compact(): equal validate() outcome; x valid / near-miss / garbage',
            'Property-based search per module with compact(); pair discard rate and accept/reject split are measured.', 'Two rejections are equal whatever the ValidationError subclass; non-ValidationError crashes are left to C01.', '3/C03'),
    'C04': ('round trip validate(format(x)) == N(validate(x)) with a documented-normalisation table, and format(x)==format(validate(x)), over presentations x format options',
            'Property-based search over the 119 modules with format().', 'Clause 2 only for separators the module own compact() removes; meid clause 3 only with format= and add_check_digit.', '3/C04'),
    'C05': ('hand-written generator convention table (102 rows); generator/validator agreement, exhaustive alternatives at each check position, completion of mutated payloads (also zero-stripped payloads of accepted shorter spellings)',
            'Property-based search plus exhaustive neighbourhood at the check positions of every generated number.', 'Conventions transcribed from each validate(); ambiguous multi-scheme modules excluded from clause (b).', '3/C05'),
    'C06': ('exhaustive enumeration of all payloads up to length L per (algorithm, alphabet) plus Hypothesis long payloads; algebraic laws (unique check, single substitution, adjacent swap, Luhn 0/9 blind spot both directions)',
            'Finite short spaces enumerated completely; long strings sampled; fold-state transition coverage counted.', '"Every length" is not proved by induction.', '3/C06'),
    'C07': ('differential testing against 19 independently written reference validators; exhaustive sweeps of ISSN/IMO/EAN-8/CAS payload spaces; constructed IBAN/Bitcoin/ISO11649/LEI inputs; single-edit neighbourhoods',
            'Differential search; thorough tier sweeps the four small payload spaces completely.', 'References share the clean-up table, ISIN/ISRC country lists and iban.dat/be banks registry with the library, as the statement allows.', '3/C07'),
    'C08': ('relation table of 36 conversions: target validity, identity embedding, inverse, presentation independence over generated valid numbers x presentations x options; power-of-radix boundary values; differential against a frozen layout table for de.stnr',
            'Property-based round-trip search per conversion.', 'Presentations limited to the statement variants (compact, space/hyphen/dot separated, module format(), lower case).', '3/C08'),
    'C09': ('differential between wrapper and constituents computed from hand-written dispatch tables (EU VAT 31 prefixes, 77 vatin aliases, unions, IBAN national, thin wrappers, guess_*)',
            'Property-based differential search over valid constituents, neighbours and prefix variants for every country.', 'Dispatch tables transcribed by hand; crashes are C01 matters.', '3/C09'),
    'C10': ('model-based differential: numdb read/info/split vs an independent reference reader+lookup on the 17 shipped registries (queries built from every entry) and on Hypothesis-generated well-formed registry files',
            'Differential search; each semantic class (multi-level, merge, override) must be populated or the check errors.', 'Generated files stay inside the documented grammar; ill-formed shipped lines are C11 matters.', '3/C10'),
    'C11': ('exhaustive enumeration of every registry line: strict grammar, reachability witnesses, consumer witnesses per registry',
            'Complete enumeration of a finite domain (about 46,000 lines, 98,000 witnesses).', 'Witness construction rules per registry are hand-written; 37 data defects are listed as known findings.', '3/C11'),
    'C12': ('validity predicate over 95 (module, getter) pairs: totality, kind, date/digit agreement from a frozen layout table, split() join',
            'Property-based search over valid numbers x getter options x frozen clock.', 'Century compared for 13 formats from frozen per-format rules; getters may raise ValidationError.', '3/C12'),
    'C13': ('stateful model-based testing: Hypothesis RuleBasedStateMachine in fresh worker processes with mutation of returned containers against a fresh-interpreter-per-call oracle; delta-debugged traces; multi-thread stress trials with concurrent first use; in-process repetition of every call; fresh interpreters differing only in PYTHONHASHSEED',
            'History/aliasing: model-based search. Threads: stress only (the harness does not own the schedule).', 'Same PYTHONHASHSEED (0) and frozen clock in all processes except in the hash-seed part; modules named in thread call lists are imported before the threads start.', '3/C13'),
    'C14': ('exhaustive enumeration of all 1,114,112 code points against the Unicode database; generated strings x deletechars against a character-wise reference; look-alike respelling of valid numbers (metamorphic)',
            'Part (a) is exhaustive; parts (b),(c) are property-based.', 'unicodedata of the interpreter is the oracle; generic algorithm modules excluded from respelling.', '3/C14'),
    'C15': ('targeted substitution fuzz: every position of valid numbers x foreign digits (same value and different), homoglyph/accented/full-width/case-expanding letters, combining marks; isascii() oracle',
            'Enumerated substitutions per number plus Hypothesis hostile edits.', 'Exempt modules may return only their documented national letters.', '3/C15'),
    'C16': ('round trips over an independent GS1 format-grammar value model: info(validate(s))==info(s), validate fixed point, info(encode(d))==d, with/without separator and parentheses; AI-level minimisation of failures',
            'Property-based search; every registered AI is exercised (checked).', 'Values avoid separator and parentheses; decimals/dates per the stated ranges.', '3/C16'),
    'C17': ('exhaustive single-substitution / adjacent-transposition neighbourhood of every generated valid number for 36 listed modules (6 of them on the positions their Luhn check covers), pair sweep of the last payload characters, documented prefixed spellings',
            'Neighbourhood of each number enumerated completely; numbers from corpus + synthesis.', 'Module list fixed by reading each validator.', '3/C17'),
    'C18': ('grammar-based request fuzzing of the WSGI app with an exact-module-set oracle, HTML parser round trip of the input value, sentinel escape contexts, and request histories compared with a fresh instance; two-stage generation (per-module is_valid pre-filter over suspicious-character sweeps, then the request)',
            'Property-based search over query strings, headers and request sequences.', 'parse_qs defines the submitted number; fresh instance = WSGI file re-executed in the same process.', '3/C18'),
}

ALL = ['C%02d' % i for i in range(1, 19)]


def main():
    checks = []
    for pid in ALL:
        if pid not in CHECKS:
            continue
        tech, text, note, ref = CHECKS[pid]
        checks.append({
            'property_id': pid,
            'quick_cmd': './check %s --tier quick' % pid,
            'thorough_cmd': './check %s --tier thorough' % pid,
            'evidence_file': 'evidence/%s.json' % pid,
            'replay_cmd_template': './check %s --replay {path}' % pid,
            'engine': 'vf',
            'level_claimed': {'category': 'exploration', 'text': text, 'design_ref': 'DESIGN.md section ' + ref},
            'level_note': note,
            'technique': tech,
        })
    man = {
        'version': 1,
        'setup_cmd': SETUP,
        'hooks': {
            'guard': 'PYTHON_STDNUM_VERIF',
            'enable': 'no source hooks are needed: checks import stdnum from /repo working tree and freeze the clock by shimming the datetime name inside stdnum modules at run time',
            'baseline_off_cmd': 'cd /repo && /venv/bin/python -m pytest -ra -q -p no:cacheprovider --timeout=900 --continue-on-collection-errors',
            'source_commits': [],
            'add_only': True,
        },
        'engines': [{'name': 'vf', 'path': 'vf/', 'serves_properties': [c['property_id'] for c in checks],
                     'kind_free_text': 'Hypothesis property-based testing harness (generators, oracles, collect-then-shrink bucketing, known findings) plus exhaustive enumeration of finite spaces'}],
        'checks': checks,
        'not_applicable': [{'property_id': pid, 'reason': 'check not built yet (work in progress; see DESIGN.md section 3)'}
                           for pid in ALL if pid not in CHECKS],
        'notes': 'Entry point ./check <ID> [--tier quick|thorough] [--replay FILE]; VERIF_SEED and VERIF_TIER honoured; exit 0/1/2 = held / violation / harness error.',
    }
    with open(os.path.join(core.VERIF, 'MANIFEST.json'), 'w') as f:
        json.dump(man, f, indent=1)
        f.write('\n')


if __name__ == '__main__':
    main()
