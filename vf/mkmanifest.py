"""Regenerate MANIFEST.json from the table below (python -m vf.mkmanifest)."""
import json
import os

from vf import core

SETUP = ("/venv/bin/python -c 'import hypothesis' 2>/dev/null || /venv/bin/pip install --no-index --find-links "
         "/opt/veriftools/wheels --target /verif/.deps hypothesis")

# id -> (technique, level text, level note, design ref)
CHECKS = {
    'C01': ('Hypothesis-generated hostile values x option table x frozen clock; exception-class and is_valid<=>validate oracle; bucketed by (module, exception, frame)',
            'Random/structured search over all 234 modules with an explicit contract oracle; finds violations, does not prove absence.',
            'Options are well-typed; objects with raising dunder methods are outside the domain; clock frozen by shim.', '3/C01'),
}

ALL = ['C%02d' % i for i in range(1, 19)]


def main():
    checks = []
    for pid in ALL:
        if pid not in CHECKS:
            continue
        tech, text, note, ref = CHECKS[pid]
        checks.append({
            'property_id': pid,
            'quick_cmd': './check %s --tier quick' % pid,
            'thorough_cmd': './check %s --tier thorough' % pid,
            'evidence_file': 'evidence/%s.json' % pid,
            'replay_cmd_template': './check %s --replay {path}' % pid,
            'engine': 'vf',
            'level_claimed': {'category': 'exploration', 'text': text, 'design_ref': 'DESIGN.md section ' + ref},
            'level_note': note,
            'technique': tech,
        })
    man = {
        'version': 1,
        'setup_cmd': SETUP,
        'hooks': {
            'guard': 'PYTHON_STDNUM_VERIF',
            'enable': 'no source hooks are needed: checks import stdnum from /repo working tree and freeze the clock by shimming the datetime name inside stdnum modules at run time',
            'baseline_off_cmd': 'cd /repo && /venv/bin/python -m pytest -ra -q -p no:cacheprovider --timeout=900 --continue-on-collection-errors',
            'source_commits': [],
            'add_only': True,
        },
        'engines': [{'name': 'vf', 'path': 'vf/', 'serves_properties': [c['property_id'] for c in checks],
                     'kind_free_text': 'Hypothesis property-based testing harness (generators, oracles, collect-then-shrink bucketing, known findings) plus exhaustive enumeration of finite spaces'}],
        'checks': checks,
        'not_applicable': [{'property_id': pid, 'reason': 'check not built yet (work in progress; see DESIGN.md section 3)'}
                           for pid in ALL if pid not in CHECKS],
        'notes': 'Entry point ./check <ID> [--tier quick|thorough] [--replay FILE]; VERIF_SEED and VERIF_TIER honoured; exit 0/1/2 = held / violation / harness error.',
    }
    with open(os.path.join(core.VERIF, 'MANIFEST.json'), 'w') as f:
        json.dump(man, f, indent=1)
        f.write('\n')


if __name__ == '__main__':
    main()
