#!/bin/bash
# usage: tools/refeval.sh <Rn> <Pn> [check ids... default all]
# Applies a behaviour-preserving change from /tmp/refac_out to a scratch tree and runs the checks: every check must exit 0.
r=$1; p=$2; shift 2
src=/verif/seeded/preserving/$r-$p/patch.diff
dir=/dev/shm/ref-$r-$p
base=$(/venv/bin/python -c "import json; print(json.load(open('/verif/seeded/preserving/$r-$p/meta.json')).get('base_commit','HEAD'))" 2>/dev/null | tail -1)
rm -rf $dir; git -C /repo worktree prune; git -C /repo worktree add -q --detach $dir ${base:-HEAD} || exit 2
cd $dir; git apply $src || { echo "$r-$p: patch does not apply"; git -C /repo worktree remove --force $dir; exit 2; }
t=$(PYTHONPATH=$dir /venv/bin/python -m pytest -q -p no:cacheprovider --no-cov 2>&1 | tail -1)
echo "$r-$p: tests: $t | $(git diff --stat | tail -1)"
cd /verif
checks="$@"; [ -z "$checks" ] && checks="C01 C02 C03 C04 C05 C06 C07 C08 C09 C10 C11 C12 C13 C14 C15 C16 C17 C18"
for c in $checks; do
  out=$(VERIF_REPO=$dir VERIF_SEED=${VERIF_SEED:-1} ./check $c --tier quick 2>&1); rc=$?
  if [ $rc -ne 0 ]; then echo "$r-$p: $c exit=$rc"; echo "$out" | grep -v conda | grep -v "^KNOWN" | tail -4 | cut -c1-300; else echo "$r-$p: $c ok"; fi
done
git -C /repo worktree remove --force $dir
