import json, glob, os
props = {}
for line in open('/verif/properties.jsonl'):
    p = json.loads(line); props[p['id']] = p
for pid, p in sorted(props.items()):
    prev = []
    for d in sorted(glob.glob('/verif/seeded/%s-*' % pid)):
        m = json.load(open(d + '/meta.json'))
        prev.append('- %s: %s' % (','.join(m.get('files_changed', [])), m.get('summary', '')[:420]))
    wt = '/tmp/wt4-%s' % pid; out = '/tmp/seeded4/%s' % pid
    os.makedirs(out, exist_ok=True)
    t = open('/tmp/seeded3/C17/PROMPT.txt').read()
    # rebuild from template pieces
    head = t.split('The property you must break:')[0].replace('/tmp/wt3-C17', wt).replace('/tmp/seeded3/C17', out).replace('/tmp/wt3-*', '/tmp/wt4-*')
    body = 'The property you must break:\n\nProperty %s: %s\n\nStatement: %s\n\nQuantified over: %s\n\nWhy the existing tests cannot settle it: %s\n\n' % (
        pid, p['title'], p['statement'], p['quantifier']['text'], p['why_tests_cant'])
    task = '\nTASK:' + t.split('\nTASK:')[1].split('This is a THIRD round.')[0]
    task = task.replace('/tmp/wt3-C17', wt)
    rnd = ('This is a FOURTH round. The following changes were already produced in earlier rounds; do NOT repeat them or close variants of them '
           '(choose other modules, other mechanisms, other branches of the property statement):\n' + '\n'.join(prev) + '\n')
    tail = 'The property statement has several clauses' + t.split('The property statement has several clauses')[1]
    tail = tail.replace('/tmp/wt3-C17', wt).replace('/tmp/seeded3/C17', out).replace('"C17"', '"%s"' % pid)
    extra = ('Hints for this round: the earlier rounds concentrated on the best-known international modules; prefer the long tail '
             '(the ~200 national modules, rarely used helper functions, second and third branches of a validator, less common '
             'options) and defects that need a *combination* (a specific length AND a specific character; a specific option AND '
             'a specific date; a specific first call AND a specific second call). Keep the failing inputs reachable by systematic search.\n\n')
    open(out + '/PROMPT.txt', 'w').write(head + body + task + rnd + extra + tail)
print(open('/tmp/seeded4/C05/PROMPT.txt').read()[:200])
print(len(open('/tmp/seeded4/C05/PROMPT.txt').read()))
