#!/bin/bash
# usage: tools/seedeval.sh <PID> <A|B> [extra check ids...]
# Confirms a sub-agent's seeded change (tests pass with it, demo fails with it and passes without) and runs the property's check on it.
pid=$1; v=$2; shift 2
src=${SEEDSRC:-/tmp/seeded_out}/$pid/$v
[ -f $src/patch.diff ] || { echo "$pid-$v: no patch"; exit 2; }
dir=/dev/shm/seed-$pid-$v
rm -rf $dir; git -C /repo worktree prune; git -C /repo worktree add -q --detach $dir HEAD || exit 2
clean=$(cd /tmp && PYTHONPATH=/repo timeout 600 /venv/bin/python $src/demo.py >/dev/null 2>&1; echo $?)
cd $dir; git apply $src/patch.diff || { echo "$pid-$v: patch does not apply"; git -C /repo worktree remove --force $dir; exit 2; }
t=$(PYTHONPATH=$dir /venv/bin/python -m pytest -q -p no:cacheprovider --no-cov 2>&1 | tail -1)
mut=$(cd /tmp && PYTHONPATH=$dir timeout 600 /venv/bin/python $src/demo.py >/dev/null 2>&1; echo $?)
echo "$pid-$v: tests: $t | demo clean=$clean mutant=$mut | files: $(git diff --stat | tail -1)"
cd /verif
for c in $pid "$@"; do
  s=$(date +%s)
  out=$(VERIF_REPO=$dir VERIF_SEED=${VERIF_SEED:-1} ./check $c --tier ${VERIF_TIER:-quick} 2>&1); rc=$?
  nv=$(echo "$out" | grep -c "^VIOLATION")
  echo "$pid-$v: check $c exit=$rc violations=$nv ($(( $(date +%s) - s ))s)"
  echo "$out" | grep "^VIOLATION" | head -${SHOWN:-3} | sed 's/^[^[]*\(\[[^]]*\]\)\(.*\)/      \1\2/' | cut -c1-200
  [ $rc -eq 2 ] && echo "$out" | grep -v conda | tail -5
done
git -C /repo worktree remove --force $dir
