#!/bin/bash
# usage: tools/mutest.sh <name> <patch.diff | revert:<commit>> <check ids...>
# Builds a scratch copy of /repo HEAD under /dev/shm, applies the change, runs the repo's tests and the given checks
# against it (VERIF_REPO), prints one summary line per check and removes the scratch copy.
name=$1; change=$2; shift 2
dir=/dev/shm/mut-$name
rm -rf $dir; git -C /repo worktree prune; git -C /repo worktree add -q --detach $dir HEAD || exit 2
cd $dir
if [[ $change == revert:* ]]; then
  git revert -n ${change#revert:} >/dev/null 2>&1 || { echo "$name: revert failed"; git -C /repo worktree remove --force $dir; exit 2; }
else
  git apply $change || { echo "$name: patch does not apply"; git -C /repo worktree remove --force $dir; exit 2; }
fi
if [ -z "$SKIPTESTS" ]; then
  t=$(PYTHONPATH=$dir /venv/bin/python -m pytest -q -p no:cacheprovider --no-cov 2>&1 | tail -1)
  echo "$name: repo tests: $t"
fi
cd /verif
for c in "$@"; do
  out=$(VERIF_REPO=$dir VERIF_SEED=${VERIF_SEED:-1} ./check $c --tier ${VERIF_TIER:-quick} 2>&1); rc=$?
  nv=$(echo "$out" | grep -c "^VIOLATION")
  first=$(echo "$out" | grep "^VIOLATION" | head -${SHOWN:-2} | sed 's/.*\(\[.*\)/\1/' | cut -c1-200)
  echo "$name: $c exit=$rc violations=$nv"; [ -n "$first" ] && echo "$first" | sed 's/^/      /'
  [ $rc -eq 2 ] && echo "$out" | grep -v conda | tail -5
done
git -C /repo worktree remove --force $dir
