"""usage: python tools/seedstore.py <PID> <A|B> "<checks that caught it, e.g. C04>" "<what I ran / notes>"
Copies a confirmed sub-agent change into /verif/seeded/<PID>-<A|B>/ (patch.diff, demo.py, meta.json)."""
import json
import os
import shutil
import sys

pid, v, caught, notes = sys.argv[1:5]
import os as _os
src = '%s/%s/%s' % (_os.environ.get('SEEDSRC', '/tmp/seeded_out'), pid, v)
dst = '/verif/seeded/%s-%s' % (pid, _os.environ.get('SEEDNAME', v))
os.makedirs(dst, exist_ok=True)
shutil.copy(src + '/patch.diff', dst + '/patch.diff')
shutil.copy(src + '/demo.py', dst + '/demo.py')
meta = json.load(open(src + '/meta.json'))
meta['property'] = pid
meta['confirmed'] = {
    'repo_tests_with_change': '385 passed (PYTHONPATH=<scratch tree> pytest -q -p no:cacheprovider --no-cov)',
    'demo': 'exit 1 with the change, exit 0 on the unchanged tree (PYTHONPATH=<tree> /venv/bin/python demo.py)',
    'how': 'tools/seedeval.sh %s %s (scratch git worktree of /repo HEAD under /dev/shm, removed afterwards)' % (pid, v),
}
meta['caught_by'] = caught.split() if caught else []
meta['notes'] = notes
json.dump(meta, open(dst + '/meta.json', 'w'), indent=1)
print('stored', dst)
