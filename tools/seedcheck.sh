#!/bin/bash
# usage: tools/seedcheck.sh <seeded dir name, e.g. C05-A> <check ids...>   (uses the stored patch in /verif/seeded)
n=$1; shift
dir=/dev/shm/sc-$n
base=$(/venv/bin/python -c "import json; print(json.load(open('/verif/seeded/$n/meta.json')).get('base_commit','HEAD'))" 2>/dev/null | tail -1)
rm -rf $dir; git -C /repo worktree prune; git -C /repo worktree add -q --detach $dir ${base:-HEAD} || exit 2
( cd $dir && git apply /verif/seeded/$n/patch.diff ) || { echo "$n: patch does not apply"; git -C /repo worktree remove --force $dir; exit 2; }
cd /verif
for c in "$@"; do
  out=$(VERIF_REPO=$dir VERIF_SEED=${VERIF_SEED:-1} ./check $c --tier quick 2>&1); rc=$?
  echo "$n: $c exit=$rc violations=$(echo "$out" | grep -c '^VIOLATION') $(echo "$out" | grep '^VIOLATION' | head -2 | sed 's/^[^[]*\(\[[^]]*\]\).*/\1/' | tr '\n' ' ' | cut -c1-160)"
done
git -C /repo worktree remove --force $dir
