import json, glob, os
props = {}
for line in open('/verif/properties.jsonl'):
    p = json.loads(line); props[p['id']] = p
for pid, p in sorted(props.items()):
    prev = []
    for d in sorted(glob.glob('/verif/seeded/%s-*' % pid)):
        m = json.load(open(d + '/meta.json'))
        prev.append('- %s: %s' % (','.join(m.get('files_changed', [])), m.get('summary', '')[:420]))
    wt = '/tmp/wt5-%s' % pid; out = '/tmp/seeded5/%s' % pid
    os.makedirs(out, exist_ok=True)
    t = open('/tmp/seeded3/C17/PROMPT.txt').read()
    # rebuild from template pieces
    head = t.split('The property you must break:')[0].replace('/tmp/wt3-C17', wt).replace('/tmp/seeded3/C17', out).replace('/tmp/wt3-*', '/tmp/wt5-*')
    body = 'The property you must break:\n\nProperty %s: %s\n\nStatement: %s\n\nQuantified over: %s\n\nWhy the existing tests cannot settle it: %s\n\n' % (
        pid, p['title'], p['statement'], p['quantifier']['text'], p['why_tests_cant'])
    task = '\nTASK:' + t.split('\nTASK:')[1].split('This is a THIRD round.')[0]
    task = task.replace('/tmp/wt3-C17', wt)
    rnd = ('This is a FIFTH round. The following changes were already produced in earlier rounds; do NOT repeat them or close variants of them '
           '(choose other modules, other mechanisms, other branches of the property statement):\n' + '\n'.join(prev) + '\n')
    tail = 'The property statement has several clauses' + t.split('The property statement has several clauses')[1]
    tail = tail.replace('/tmp/wt3-C17', wt).replace('/tmp/seeded3/C17', out).replace('"C17"', '"%s"' % pid)
    touched = sorted(set(f for d in glob.glob('/verif/seeded/%s-*' % pid) for f in json.load(open(d + '/meta.json')).get('files_changed', [])))
    extra = ('Hints for this round: files already used for this property in earlier rounds: ' + ', '.join(touched) + '. Use DIFFERENT files unless the '
             'property is anchored in a single file. Earlier rounds were mostly one-line slips (regex class, off-by-one, table entry, cache key). '
             'This time prefer changes a careful reviewer would wave through: a refactor that is equivalent for all inputs but one family, '
             'a performance shortcut with a wrong precondition, an "also accept" extension with an unintended side effect on other inputs, '
             'a Python-version compatibility rewrite, a data-file refresh that changes a few lines. The failing inputs must stay a small '
             'fraction of all inputs and be reachable by systematic search.\n\n')
    open(out + '/PROMPT.txt', 'w').write(head + body + task + rnd + extra + tail)
print(open('/tmp/seeded5/C05/PROMPT.txt').read()[:200])
print(len(open('/tmp/seeded5/C05/PROMPT.txt').read()))
