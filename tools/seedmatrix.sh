#!/bin/bash
# usage: tools/seedmatrix.sh [name-glob]   - for every stored seeded change run the checks its meta.json lists under
# caught_by (at least the property's own check) and print one line per (change, check). Not a registered check.
cd /verif
for d in seeded/${1:-C*}; do
  n=$(basename $d)
  [ -f $d/patch.diff ] || continue
  own=${n%%-*}
  checks=$(/venv/bin/python -c "import json,sys; m=json.load(open('$d/meta.json')); print(' '.join(dict.fromkeys(['$own']+[c for c in m.get('caught_by',[]) if c.startswith('C')])))" 2>/dev/null)
  tools/seedcheck.sh $n $checks 2>&1 | grep -v conda
done
